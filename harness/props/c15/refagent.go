package c15

// The reference agent: a Demon as far as COMMAND_SOCKET is concerned, built on the
// independent codec in verifh/demon. Layouts follow payloads/Demon/src/core/Socket.c
// (callbacks) and Command.c CommandSocket (task readers).

import (
	"bytes"
	"fmt"
	"net/http"
	"sync"
	"sync/atomic"
	"unsafe"

	"Havoc/pkg/agent"

	"verifh/demon"
	"verifh/rig"
)

const (
	subRportAdd    = 0x00
	subRportList   = 0x02
	subRportClear  = 0x03
	subRportRemove = 0x04
	subOpen        = 0x10
	subRead        = 0x11
	subWrite       = 0x12
	subClose       = 0x13
	subConnect     = 0x14

	typeRportfwd = 1
	typeProxy    = 2
	typeClient   = 3
)

// sockTask is one decoded COMMAND_SOCKET task.
type sockTask struct {
	Sub  uint32
	ID   uint32
	Atyp byte
	Addr []byte
	Port uint16
	Data []byte
	// rportfwd add
	LclAddr, LclPort, FwdAddr, FwdPort uint32
	Tail                               int  // bytes left after the fields the Demon reads
	Bad                                bool // the Demon's reader would run off the end
	Raw                                []byte
}

func (t sockTask) String() string {
	switch t.Sub {
	case subConnect:
		return fmt.Sprintf("connect id=%08x atyp=%d addr=%x port=%d", t.ID, t.Atyp, t.Addr, t.Port)
	case subWrite:
		return fmt.Sprintf("write id=%08x len=%d", t.ID, len(t.Data))
	case subClose:
		return fmt.Sprintf("close id=%08x", t.ID)
	}
	return fmt.Sprintf("sub=%#x id=%08x", t.Sub, t.ID)
}

// decodeSock mirrors CommandSocket's ParserGet* sequences.
func decodeSock(body []byte) sockTask {
	rd := demon.Rd{B: body}
	t := sockTask{Raw: body}
	t.Sub = rd.I32()
	switch t.Sub {
	case subConnect:
		t.ID = rd.I32()
		t.Atyp = rd.U8()
		t.Addr = append([]byte{}, rd.Bytes()...)
		t.Port = rd.I16()
	case subWrite:
		t.ID = rd.I32()
		t.Data = append([]byte{}, rd.Bytes()...)
	case subClose, subRportRemove:
		t.ID = rd.I32()
	case subRportAdd:
		t.LclAddr = rd.I32()
		t.LclPort = rd.I32()
		t.FwdAddr = rd.I32()
		t.FwdPort = rd.I32()
	case subRportList, subRportClear:
	}
	t.Bad = rd.Err
	t.Tail = len(rd.B)
	return t
}

// refAgent is one registered reference Demon. Check-ins of one agent are serialised, as a
// Demon is single threaded.
type refAgent struct {
	ID     uint32
	Name   string
	Key    []byte
	IV     []byte
	eng    http.Handler
	A      *agent.Agent // the teamserver's session object (tables are read under its own mutexes only)
	mu     sync.Mutex
	others int // tasks that are not COMMAND_SOCKET / NOJOB
	ptr    uint64       // address of A, as the queue.add hook sees it
	handed atomic.Int64 // tasks (of any command) received in check-ins
}

// queueMiscount: did the job queue hand this agent a different number of tasks than were
// added for it? (call when nothing is in flight)
func (a *refAgent) queueMiscount() (adds, handed int64, off bool) {
	adds, handed = addsOf(a.ptr), a.handed.Load()
	return adds, handed, adds != handed
}

func newRefAgent(r *rig.Rig, eng http.Handler, id uint32) (*refAgent, error) {
	a := &refAgent{ID: id, Name: fmt.Sprintf("%08x", id), eng: eng}
	a.Key = make([]byte, 32)
	a.IV = make([]byte, 16)
	for i := range a.Key {
		a.Key[i] = byte(0x30 + (int(id)+i*7)%64)
	}
	for i := range a.IV {
		a.IV[i] = byte(0x21 + (int(id>>3)+i*5)%64)
	}
	m := &demon.Meta{AgentID: id, Hostname: "HOST", Username: "user", Domain: "DOM", InternalIP: "10.0.0.1",
		ProcessPath: "C:\\x\\proc.exe", PID: 10, TID: 11, PPID: 12, Arch: 2, Elevated: 1, BaseAddr: 0x7ff000,
		OS: [5]uint32{10, 0, 1, 0, 19045}, OSArch: 9, Sleep: 0, Jitter: 0}
	resp := rig.Post(eng, "/", demon.Register(id, a.Key, a.IV, m), nil)
	if resp.Panic != nil {
		return nil, fmt.Errorf("registration panicked: %v", resp.Panic)
	}
	if resp.Status != 200 {
		return nil, fmt.Errorf("registration answered %d", resp.Status)
	}
	for _, x := range r.TS.Agents.Agents {
		if x.NameID == a.Name {
			a.A = x
		}
	}
	if a.A == nil {
		return nil, fmt.Errorf("agent %s not in the session table after registration", a.Name)
	}
	a.ptr = uint64(uintptr(unsafe.Pointer(a.A)))
	return a, nil
}

type checkinResult struct {
	Tasks  []sockTask
	Panic  any
	Stack  string
	Status int
	BadFmt bool
}

// checkin sends the callbacks and returns the socket tasks of the answer.
func (a *refAgent) checkin(cbs ...demon.Callback) checkinResult {
	a.mu.Lock()
	defer a.mu.Unlock()
	resp := rig.Post(a.eng, "/", demon.Checkin(a.ID, a.Key, a.IV, cbs...), nil)
	res := checkinResult{Panic: resp.Panic, Stack: resp.Stack, Status: resp.Status}
	if resp.Panic != nil || resp.Status != 200 {
		return res
	}
	ts, ok := demon.ParseTasks(resp.Body, a.Key, a.IV)
	if !ok {
		res.BadFmt = true
	}
	for _, t := range ts {
		if t.Cmd != demon.CmdNoJob {
			a.handed.Add(1)
		}
		switch t.Cmd {
		case demon.CmdSocket:
			res.Tasks = append(res.Tasks, decodeSock(t.Body))
		case demon.CmdNoJob:
		default:
			a.others++
		}
	}
	return res
}

// ---- callbacks (Socket.c / Command.c PackageAdd* sequences, big endian) ----

func cbConnect(success bool, id uint32, errCode uint32) demon.Callback {
	var p demon.Pkg
	p.I32(subConnect).Bool(success).I32(id).I32(errCode)
	return demon.Callback{Cmd: demon.CmdSocket, Body: p.B}
}

func cbRead(id uint32, typ uint32, data []byte) demon.Callback {
	var p demon.Pkg
	p.I32(subRead).I32(id).I32(typ).I32(1).Bytes(data)
	return demon.Callback{Cmd: demon.CmdSocket, Body: p.B}
}

func cbReadFail(id uint32, typ uint32, errCode uint32) demon.Callback {
	var p demon.Pkg
	p.I32(subRead).I32(id).I32(typ).I32(0).I32(errCode)
	return demon.Callback{Cmd: demon.CmdSocket, Body: p.B}
}

func cbClose(id uint32, typ uint32) demon.Callback {
	var p demon.Pkg
	p.I32(subClose).I32(id).I32(typ)
	return demon.Callback{Cmd: demon.CmdSocket, Body: p.B}
}

func cbOpen(id, lclAddr, lclPort, fwdAddr, fwdPort uint32) demon.Callback {
	var p demon.Pkg
	p.I32(subOpen).I32(id).I32(lclAddr).I32(lclPort).I32(fwdAddr).I32(fwdPort)
	return demon.Callback{Cmd: demon.CmdSocket, Body: p.B}
}

func cbRportRemove(id, typ, lclAddr, lclPort, fwdAddr, fwdPort uint32) demon.Callback {
	var p demon.Pkg
	p.I32(subRportRemove).I32(id).I32(typ).I32(lclAddr).I32(lclPort).I32(fwdAddr).I32(fwdPort)
	return demon.Callback{Cmd: demon.CmdSocket, Body: p.B}
}

func cbRportAdd(success bool, id, lclAddr, lclPort, fwdAddr, fwdPort uint32) demon.Callback {
	var p demon.Pkg
	p.I32(subRportAdd).Bool(success).I32(id).I32(lclAddr).I32(lclPort).I32(fwdAddr).I32(fwdPort)
	return demon.Callback{Cmd: demon.CmdSocket, Body: p.B}
}

// ---- table views, always through the table's own mutex ----

func (a *refAgent) socksCliIDs() []uint32 {
	a.A.SocksCliMtx.Lock()
	defer a.A.SocksCliMtx.Unlock()
	var ids []uint32
	for _, c := range a.A.SocksCli {
		ids = append(ids, uint32(c.SocketID))
	}
	return ids
}

func (a *refAgent) hasSocksCli(id uint32) bool {
	for _, x := range a.socksCliIDs() {
		if x == id {
			return true
		}
	}
	return false
}

func (a *refAgent) socksSvrAddrs() []string {
	a.A.SocksSvrMtx.Lock()
	defer a.A.SocksSvrMtx.Unlock()
	var s []string
	for _, c := range a.A.SocksSvr {
		s = append(s, c.Addr)
	}
	return s
}

func (a *refAgent) portFwdIDs() []uint32 {
	a.A.PortFwdsMtx.Lock()
	defer a.A.PortFwdsMtx.Unlock()
	var ids []uint32
	for _, c := range a.A.PortFwds {
		ids = append(ids, uint32(c.SocktID))
	}
	return ids
}

// ---- counter payloads ----

// payload returns n bytes of the stream (tag, offset off): 32-bit big-endian words
// tag<<24 | word index, so that every byte position is identified by its surroundings.
func payload(tag byte, off, n int) []byte {
	out := make([]byte, n)
	for i := 0; i < n; i++ {
		pos := off + i
		w := uint32(tag)<<24 | uint32(pos/4)&0xffffff
		out[i] = byte(w >> (8 * (3 - uint(pos%4))))
	}
	return out
}

// diffStream explains how got deviates from want (both start at offset 0 of one stream).
// class is one of "", short, lost, dup, reorder, corrupt, extra.
func diffStream(want, got []byte) (class string, at int, detail string) {
	n := len(got)
	if len(want) < n {
		n = len(want)
	}
	at = -1
	for i := 0; i < n; i++ {
		if want[i] != got[i] {
			at = i
			break
		}
	}
	if at < 0 {
		switch {
		case len(got) == len(want):
			return "", -1, ""
		case len(got) < len(want):
			return "short", len(got), fmt.Sprintf("%d of %d bytes arrived, all correct so far", len(got), len(want))
		default:
			return "extra", len(want), fmt.Sprintf("%d bytes beyond the %d sent", len(got)-len(want), len(want))
		}
	}
	probe := got[at:]
	if len(probe) > 16 {
		probe = probe[:16]
	}
	if len(probe) >= 8 {
		if j := bytes.Index(want[at:], probe); j > 0 {
			return "lost", at, fmt.Sprintf("%d bytes missing at offset %d (stream continues with offset %d)", j, at, at+j)
		}
		if j := bytes.Index(want[:at], probe); j >= 0 {
			if bytes.HasPrefix(got[at:], want[j:at]) {
				return "dup", at, fmt.Sprintf("bytes of offsets %d..%d repeated at offset %d", j, at, at)
			}
			return "reorder", at, fmt.Sprintf("offset %d carries bytes of earlier offset %d", at, j)
		}
	}
	return "corrupt", at, fmt.Sprintf("offset %d: want %x got %x", at, want[at:min(at+8, len(want))], got[at:min(at+8, len(got))])
}
