// Package c01 holds the workload and monitor for property C01 (see /verif/DESIGN.md §3).
package c01
