// Package c01: "Untrusted listener traffic can never crash or wedge the teamserver".
//
// One worker shard = one state shape, built by valid traffic from the reference Demon, and
// a stream of hostile requests sent through the real listener engine. Monitors per request:
// panic (recovered at the engine boundary, stack kept), termination (driver watchdog over
// the on-disk current input), held agent mutexes (TryLock probe) and, for requests answered
// with the decoy 404, equality of the canonical state snapshot before and after.
package c01

import (
	"encoding/binary"
	"encoding/hex"
	"encoding/json"
	"fmt"
	"math/rand"
	"net/http"
	"strings"
	"sync"
	"time"

	"Havoc/pkg/handlers"
	"Havoc/pkg/verifhook"

	"verifh/demon"
	"verifh/lib"
	"verifh/model"
	"verifh/observe"
	"verifh/rig"
	"verifh/svcclient"
)

func init() { lib.Register("C01", run) }

type shape struct {
	Agents      int  `json:"agents"`
	Outstanding bool `json:"outstanding"`
	SendLogs    bool `json:"send_logs"`
	Downloads   bool `json:"downloads"`
	Links       int  `json:"links"` // 0 none, 1 parent->child, 2 parent->child (child marked dead), 3 chain of 3, 4 star (one parent, two children)
	Service     bool `json:"service"`
	External    bool `json:"external"` // requests go to an External-C2 endpoint instead of the HTTP listener
	Redir       bool `json:"redir"`    // the listener sits behind a redirector (profile TrustXForwardedFor); requests come with and without X-Forwarded-For
}

var shapes = []shape{
	{Agents: 0},
	{Agents: 1},
	{Agents: 1, Outstanding: true},
	{Agents: 1, Outstanding: true, SendLogs: true},
	{Agents: 3, Outstanding: true, Downloads: true},
	{Agents: 3, Outstanding: true, Links: 1},
	{Agents: 3, Outstanding: true, Links: 2},
	{Agents: 3, Outstanding: true, Links: 3, Downloads: true},
	{Agents: 1, Outstanding: true, Service: true},
	{Agents: 0, Service: true},
	{Agents: 1, Outstanding: true, External: true},
	{Agents: 3, Outstanding: true, Links: 1, SendLogs: true, Downloads: true},
	{Agents: 3, Outstanding: true, Links: 4},
	{Agents: 3, Outstanding: true, Links: 4, Service: true},
	{Agents: 1, Outstanding: true, Redir: true},
	{Agents: 3, Outstanding: true, Links: 1, Redir: true, Downloads: true},
}

type reqCase struct {
	Gen  string `json:"gen"`
	Body string `json:"body"` // hex
	// XFF: the X-Forwarded-For header of the request ("" = none)
	XFF string `json:"xff,omitempty"`
}

type witness struct {
	Shape   shape     `json:"shape"`
	Seed    int64     `json:"seed"`
	History []reqCase `json:"history"` // the requests that preceded (window), oldest first
	Req     reqCase   `json:"req"`
	// Pool: request ids that were outstanding per agent (hex id) when the window started
	Pool map[string][]uint32 `json:"pool,omitempty"`
}

type env struct {
	sh     shape
	r      *rig.Rig
	eng    http.Handler
	path   string
	h      *handlers.HTTP
	sims   []*rig.Sim
	pool   map[uint32][]uint32 // agent id -> outstanding request ids
	nextID uint32
	svc    *svcclient.Client
	rng    *rand.Rand
	dbPath string
	loot   string
	broken bool
	rec    *rig.Recorder
	// burstOps: harness-side operations (operator tasking) run together with a burst's requests
	burstOps []func()
}

func (e *env) close() {
	if e.svc != nil {
		e.svc.Close()
	}
	e.r.Close()
}

const svcMagic = 0x41424344

func build(sh shape, seed int64) (*env, error) {
	e := &env{sh: sh, pool: map[uint32][]uint32{}, nextID: 0x10000, rng: rand.New(rand.NewSource(seed))}
	full := sh.Service || sh.External
	r, err := rig.New(rig.Options{Full: full, Service: sh.Service, SendLogs: sh.SendLogs, TrustXFF: sh.Redir})
	if err != nil {
		return nil, err
	}
	e.r = r
	e.dbPath = r.Dir + "/data/teamserver.db"
	e.loot = r.Dir + "/data/loot"
	h, err := r.StartHTTP(handlers.HTTPConfig{Name: "c01", BehindRedir: sh.Redir})
	if err != nil {
		return nil, err
	}
	e.h = h
	// every call the listener makes into the teamserver is recorded (bookkeeping included)
	e.rec = rig.NewRecorder(r.TS)
	e.rec.Bookkeeping = true
	h.Teamserver = e.rec
	e.eng = h.GinEngine
	e.path = "/"
	if sh.External {
		if err := r.TS.ListenerStart(handlers.LISTENER_EXTERNAL, handlers.ExternalConfig{Name: "ext", Endpoint: "extc2"}); err != nil {
			return nil, err
		}
		e.eng = r.TS.Server.Engine
		e.path = "/extc2"
	}
	if sh.Service {
		s, err := svcclient.Connect(fmt.Sprintf("127.0.0.1:%d", r.Port), "service-endpoint", "service-pw", "svc1")
		if err != nil {
			return nil, err
		}
		e.svc = s
		s.RegisterAgent("Talon", fmt.Sprintf("0x%x", svcMagic))
		for i := 0; i < 200 && len(r.TS.Service.Agents) == 0; i++ {
			time.Sleep(10 * time.Millisecond)
		}
		if len(r.TS.Service.Agents) == 0 {
			return nil, fmt.Errorf("service agent type not registered")
		}
	}
	ids := []uint32{0x11110001, 0x7fffffff, 0x80000002}
	for i := 0; i < sh.Agents; i++ {
		s := rig.NewSim(e.rng, ids[i])
		e.sims = append(e.sims, s)
	}
	// direct agents register over the listener; linked ones through their parent
	post := func(b []byte) rig.Resp { return rig.Post(e.eng, e.path, b, nil) }
	for i, s := range e.sims {
		parent := -1
		switch sh.Links {
		case 1, 2:
			if i == 1 {
				parent = 0
			}
		case 3:
			if i > 0 {
				parent = i - 1
			}
		case 4:
			if i > 0 {
				parent = 0
			}
		}
		if parent < 0 {
			if resp := post(s.RegisterBytes()); resp.Status != 200 {
				return nil, fmt.Errorf("setup: registration of %s failed: %d %v", s.Hex(), resp.Status, resp.Panic)
			}
			continue
		}
		// parent needs an outstanding `pivot connect` task id
		p := e.sims[parent]
		req := e.take(p)
		cb := demon.SmbConnect(req, s.RegisterBytes())
		pkg := demon.Checkin(p.ID, p.Key, p.IV, cb)
		// route through the chain up to the root
		for a := parent; ; {
			up := -1
			if sh.Links == 3 && a > 0 {
				up = a - 1
			}
			if up < 0 {
				break
			}
			pkg = demon.Checkin(e.sims[up].ID, e.sims[up].Key, e.sims[up].IV, demon.PivotWrap(pkg))
			a = up
		}
		if resp := post(pkg); resp.Status != 200 {
			return nil, fmt.Errorf("setup: pivot registration of %s failed: %d %v", s.Hex(), resp.Status, resp.Panic)
		}
	}
	if len(r.TS.Agents.Agents) != sh.Agents {
		return nil, fmt.Errorf("setup: %d sessions, expected %d", len(r.TS.Agents.Agents), sh.Agents)
	}
	if sh.Links == 2 {
		for _, a := range r.TS.Agents.Agents {
			if a.NameID == e.sims[1].Hex() {
				a.Active = false
			}
		}
	}
	if sh.Outstanding {
		for _, s := range e.sims {
			e.refill(s, 60)
		}
	}
	if sh.Downloads {
		for k, s := range e.sims {
			req := e.take(s)
			var p demon.Pkg
			p.I32(2).I32(0).I32(uint32(0x500 + k)).I64(64).WStr(fmt.Sprintf("C:\\loot\\file%d.bin", k))
			e.send(s, demon.Callback{Cmd: 15, ReqID: req, Body: p.B})
			// and an empty file (announced size 0) that stays open
			req = e.take(s)
			var q demon.Pkg
			q.I32(2).I32(0).I32(uint32(0x600 + k)).I64(0).WStr(fmt.Sprintf("C:\\loot\\empty%d.bin", k))
			e.send(s, demon.Callback{Cmd: 15, ReqID: req, Body: q.B})
		}
	}
	return e, nil
}

// rootOf returns the chain of hops from the root down to sim i (inclusive).
func (e *env) chain(i int) []int {
	switch e.sh.Links {
	case 1, 2:
		if i == 1 {
			return []int{0, 1}
		}
	case 3:
		var c []int
		for k := 0; k <= i; k++ {
			c = append(c, k)
		}
		return c
	case 4:
		if i > 0 {
			return []int{0, i}
		}
	}
	return []int{i}
}

// envelope wraps callbacks of sim i so that they reach the server through the listener
// (direct check-in or relayed through the parents).
func (e *env) envelope(i int, cbs ...demon.Callback) []byte {
	ch := e.chain(i)
	s := e.sims[i]
	pkg := demon.Checkin(s.ID, s.Key, s.IV, cbs...)
	for k := len(ch) - 2; k >= 0; k-- {
		p := e.sims[ch[k]]
		pkg = demon.Checkin(p.ID, p.Key, p.IV, demon.PivotWrap(pkg))
	}
	return pkg
}

func (e *env) idx(s *rig.Sim) int {
	for i, x := range e.sims {
		if x == s {
			return i
		}
	}
	return 0
}

func (e *env) send(s *rig.Sim, cbs ...demon.Callback) rig.Resp {
	return rig.Post(e.eng, e.path, e.envelope(e.idx(s), cbs...), nil)
}

// refill queues n no-argument tasks for the agent and lets it take them, so that their
// request ids are outstanding.
func (e *env) refill(s *rig.Sim, n int) {
	if e.cyclic() {
		e.broken = true
		return
	}
	for k := 0; k < n; k++ {
		e.nextID++
		rig.TaskSimple(e.r.TS, s.Hex(), e.nextID)
		e.pool[s.ID] = append(e.pool[s.ID], e.nextID)
	}
	// direct agents fetch their queue; for pivot agents the tasks sit in the parent's queue
	root := e.sims[e.chain(e.idx(s))[0]]
	rig.Post(e.eng, e.path, demon.Checkin(root.ID, root.Key, root.IV), nil)
}

// cyclic reports whether hostile pivot traffic has bent the parent pointers into a cycle
// (property C09's business); tasking an agent in that state never returns, so the harness
// stops using the environment instead of hanging itself.
func (e *env) cyclic() bool {
	for _, a := range e.r.TS.Agents.Agents {
		n := 0
		for p := a.Pivots.Parent; p != nil; p = p.Pivots.Parent {
			n++
			if n > 16 {
				return true
			}
		}
	}
	return false
}

func (e *env) take(s *rig.Sim) uint32 {
	if len(e.pool[s.ID]) == 0 {
		e.refill(s, 40)
	}
	if len(e.pool[s.ID]) == 0 {
		return e.rng.Uint32()
	}
	p := e.pool[s.ID]
	id := p[0]
	e.pool[s.ID] = p[1:]
	return id
}

// ---- request generators ----

func (e *env) someSim() *rig.Sim {
	if len(e.sims) == 0 {
		return nil
	}
	return e.sims[e.rng.Intn(len(e.sims))]
}

func (e *env) reqID(s *rig.Sim) uint32 {
	if s != nil && e.sh.Outstanding && e.rng.Intn(8) != 0 {
		return e.take(s)
	}
	return e.rng.Uint32()
}

func randBytes(r *rand.Rand, n int) []byte {
	b := make([]byte, n)
	r.Read(b)
	return b
}

func (e *env) genRandom() ([]byte, string) {
	n := e.rng.Intn(65)
	if e.rng.Intn(40) == 0 {
		n = 1000 + e.rng.Intn(64000)
	}
	return randBytes(e.rng, n), "random"
}

func (e *env) genHeader() ([]byte, string) {
	magic := uint32(demon.Magic)
	switch e.rng.Intn(6) {
	case 0:
		magic = e.rng.Uint32()
	case 1:
		magic = svcMagic
	case 2:
		magic = 0
	}
	var id uint32
	switch e.rng.Intn(6) {
	case 0:
		id = 0
	case 1:
		id = 0x80000000 | e.rng.Uint32()
	case 2:
		id = e.rng.Uint32()
	default:
		if s := e.someSim(); s != nil {
			id = s.ID
		} else {
			id = e.rng.Uint32()
		}
	}
	cmds := []uint32{demon.CmdGetJob, demon.CmdInit, demon.CmdCheckin, 0, 0xffffffff, 90, 2520, 2540}
	cmd := cmds[e.rng.Intn(len(cmds))]
	n := e.rng.Intn(200)
	if e.rng.Intn(5) == 0 {
		n = e.rng.Intn(8)
	}
	b := demon.Header(magic, id, cmd, e.rng.Uint32(), randBytes(e.rng, n))
	if e.rng.Intn(4) == 0 {
		binary.BigEndian.PutUint32(b, e.rng.Uint32())
	}
	return b, "header"
}

// corrupt applies one field-level corruption to a grammar-valid callback body.
func (e *env) corrupt(in model.Instance) ([]byte, string) {
	body := in.Body()
	spans, prefixes := in.Spans()
	switch k := e.rng.Intn(9); k {
	case 0:
		return body, "valid"
	case 1:
		if len(body) == 0 {
			return body, "valid"
		}
		return body[:e.rng.Intn(len(body))], "truncate"
	case 2, 3:
		if len(prefixes) == 0 {
			return body, "valid"
		}
		off := prefixes[e.rng.Intn(len(prefixes))]
		cur := binary.BigEndian.Uint32(body[off:])
		vals := []uint32{0, 1, cur + 1, cur - 1, 0x7fffffff, 0x80000000, 0xffffffff, cur ^ 1, cur * 2}
		b := append([]byte{}, body...)
		binary.BigEndian.PutUint32(b[off:], vals[e.rng.Intn(len(vals))])
		return b, "length-prefix"
	case 4:
		// odd number of bytes in a UTF-16 field / empty strings: cut inside a span
		if len(spans) == 0 {
			return body, "valid"
		}
		sp := spans[e.rng.Intn(len(spans))]
		cut := sp[0] + e.rng.Intn(sp[1]-sp[0]+1)
		return body[:cut], "cut-in-field"
	case 5:
		b := append([]byte{}, body...)
		for i := 0; i < 1+e.rng.Intn(3) && len(b) > 0; i++ {
			b[e.rng.Intn(len(b))] ^= byte(1 << uint(e.rng.Intn(8)))
		}
		return b, "bitflip"
	case 6:
		// wrong sub-command / counts: overwrite the first int
		b := append([]byte{}, body...)
		if len(b) >= 4 {
			binary.BigEndian.PutUint32(b, []uint32{0, 1, 2, 3, 5, 10, 11, 12, 0x14, 0xffffffff, e.rng.Uint32()}[e.rng.Intn(11)])
		}
		return b, "subcommand"
	case 7:
		return append(append([]byte{}, body...), randBytes(e.rng, 1+e.rng.Intn(12))...), "trailing"
	default:
		// every string empty
		for i := range in.Vals {
			in.Vals[i].S = ""
		}
		return in.Body(), "empty-strings"
	}
}

func (e *env) genCallback() ([]byte, string) {
	s := e.someSim()
	if s == nil {
		return e.genHeader()
	}
	var cbs []demon.Callback
	kind := ""
	n := 1
	if e.rng.Intn(5) == 0 {
		n = 2 + e.rng.Intn(3)
	}
	for k := 0; k < n; k++ {
		l := &model.Layouts[e.rng.Intn(len(model.Layouts))]
		in := model.Instantiate(l, e.rng, model.TextClass(e.rng.Intn(3)))
		body, ck := e.corrupt(in)
		kind = l.Name + "/" + ck
		cbs = append(cbs, demon.Callback{Cmd: l.Cmd, ReqID: e.reqID(s), Body: body})
	}
	return e.envelope(e.idx(s), cbs...), "callback:" + kind
}

// special callbacks: hand-written bodies for decoders with loops, counts and nested data.
func (e *env) genSpecial() ([]byte, string) {
	s := e.someSim()
	if s == nil {
		return e.genHeader()
	}
	var p demon.Pkg
	cmd := uint32(0)
	name := ""
	w := func(str string) { p.WStr(str) }
	switch e.rng.Intn(16) {
	case 13, 14: // transfer list / stop / resume / remove naming the downloads that are open (sizes 0, 1, 64, ...)
		cmd, name = 2530, "transfer.open-ids"
		sub := uint32(e.rng.Intn(4))
		p.I32(sub)
		fid := func() uint32 {
			return []uint32{0x500, 0x501, 0x502, 0x503, 0x600, 0x601, 0x602, 0x700}[e.rng.Intn(8)]
		}
		if sub == 0 {
			for k := 0; k < 1+e.rng.Intn(4); k++ {
				p.I32(fid()).I32([]uint32{0, 1, 64, 0x7fffffff, 0xffffffff}[e.rng.Intn(5)]).I32(uint32(1 + e.rng.Intn(4)))
			}
		} else {
			p.I32(uint32(e.rng.Intn(2))).I32(fid())
		}
	case 0: // list-only dir listing with empty / short names
		cmd, name = 15, "fs.dir.listonly"
		p.I32(1).Bool(e.rng.Intn(2) == 0).Bool(true)
		w("C:\\*")
		p.Bool(true)
		w([]string{"", "C", "C:\\x\\"}[e.rng.Intn(3)])
		p.I32(uint32(e.rng.Intn(3))).I32(uint32(e.rng.Intn(3)))
		for k := 0; k < e.rng.Intn(3); k++ {
			w([]string{"", "f.txt"}[e.rng.Intn(2)])
		}
	case 1: // dir listing whose counts exceed the data
		cmd, name = 15, "fs.dir.counts"
		p.I32(1).Bool(false).Bool(false)
		w("C:\\*")
		p.Bool(true)
		w("C:\\")
		p.I32(0x7fffffff).I32(0xffffffff).I64(1)
		w("a")
	case 2: // download open/write/close with hostile ids and sizes
		cmd, name = 15, "fs.download"
		mode := uint32(e.rng.Intn(4))
		p.I32(2).I32(mode).I32(uint32(0x500 + e.rng.Intn(4)))
		switch mode {
		case 0:
			p.I64([]uint64{0, 1, e.rng.Uint64()}[e.rng.Intn(3)])
			w([]string{"", "a.bin", "..\\..\\x", "C:\\a\\b\\c.txt"}[e.rng.Intn(4)])
		case 1:
			p.Bytes(randBytes(e.rng, e.rng.Intn(64)))
		default:
			p.I32(uint32(e.rng.Intn(3)))
		}
	case 3: // beacon file callbacks: inner blob shorter than its fixed part
		cmd, name = 94, "beacon.file"
		p.I32([]uint32{2, 8, 9}[e.rng.Intn(3)])
		p.Bytes(randBytes(e.rng, e.rng.Intn(12)))
	case 4: // checkin with truncated metadata
		cmd, name = demon.CmdCheckin, "checkin.meta"
		m := s.Meta
		full := append(append(append([]byte{}, s.Key...), s.IV...), m.MetaBody()...)
		p.Pad(full[:e.rng.Intn(len(full)+1)])
	case 5: // screenshot with garbage image
		cmd, name = 2510, "screenshot"
		p.I32(uint32(e.rng.Intn(2))).Bytes(randBytes(e.rng, e.rng.Intn(100)))
	case 6: // smb connect carrying inner registrations of every quality
		cmd, name = demon.CmdPivot, "pivot.connect"
		child := rig.NewSim(e.rng, []uint32{0x22220000 | uint32(e.rng.Intn(4)), 0xfffffff0 | uint32(e.rng.Intn(4)), 0}[e.rng.Intn(3)])
		inner := child.RegisterBytes()
		switch e.rng.Intn(6) {
		case 0:
			inner = inner[:e.rng.Intn(len(inner))]
		case 1:
			inner[len(inner)-1-e.rng.Intn(40)] ^= 0xff
		case 2:
			binary.BigEndian.PutUint32(inner[4:], e.rng.Uint32()) // unknown magic
		case 3:
			if o := e.someSim(); o != nil {
				inner = o.RegisterBytes() // existing agent: reconnect (maybe itself / an ancestor)
			}
		}
		p.I32(10).I32(uint32(e.rng.Intn(2)))
		p.Bytes(inner)
	case 7: // smb disconnect of arbitrary ids
		cmd, name = demon.CmdPivot, "pivot.disconnect"
		id := e.rng.Uint32()
		if o := e.someSim(); o != nil && e.rng.Intn(2) == 0 {
			id = o.ID
		}
		p.I32(11).I32(uint32(e.rng.Intn(2))).I32(id)
	case 8: // relayed package for unknown agents / nested to depth 4
		cmd, name = demon.CmdPivot, "pivot.relay"
		depth := 1 + e.rng.Intn(4)
		inner, _ := e.genHeader()
		if e.rng.Intn(2) == 0 {
			inner, _ = e.genCallback()
		}
		for d := 1; d < depth; d++ {
			o := e.someSim()
			inner = demon.Checkin(o.ID, o.Key, o.IV, demon.PivotWrap(inner))
		}
		p.I32(12).Bytes(inner)
	case 9: // socket callbacks with arbitrary ids
		cmd, name = demon.CmdSocket, "socket"
		sub := []uint32{0x10, 0x11, 0x12, 0x13, 0x14, 2, 3, 4, 5}[e.rng.Intn(9)]
		p.I32(sub)
		for k := 0; k < e.rng.Intn(7); k++ {
			p.I32([]uint32{0, 1, 2, 3, 0x7f000001, 0xffffffff, e.rng.Uint32()}[e.rng.Intn(7)])
		}
	case 10: // token / kerberos style lists with counts
		cmd, name = []uint32{40, 2550, 2530, 2100}[e.rng.Intn(4)], "lists"
		p.I32(uint32(e.rng.Intn(12)))
		for k := 0; k < e.rng.Intn(8); k++ {
			if e.rng.Intn(2) == 0 {
				p.I32([]uint32{0, 1, 0xffffffff, 0x7fffffff, e.rng.Uint32()}[e.rng.Intn(5)])
			} else {
				p.Bytes(randBytes(e.rng, e.rng.Intn(9)))
			}
		}
	case 11: // exit / kill date
		cmd, name = []uint32{92, 93}[e.rng.Intn(2)], "exit"
		p.I32(uint32(e.rng.Intn(4)))
	case 12: // every command id with a random body
		cmd, name = []uint32{11, 12, 15, 20, 21, 22, 24, 26, 27, 40, 89, 90, 91, 92, 93, 94, 100, 2100, 2500, 2510, 2520, 2530, 2540, 2550, 2560, 2570, 0x1010, 0x2001, 0x2003, 1, 10, 99}[e.rng.Intn(32)], "anycmd"
		p.Pad(randBytes(e.rng, e.rng.Intn(80)))
	default: // job list etc. with huge repeated groups
		cmd, name = 21, "job.list.long"
		p.I32(1)
		for k := 0; k < e.rng.Intn(50); k++ {
			p.I32(e.rng.Uint32())
		}
	}
	cb := demon.Callback{Cmd: cmd, ReqID: e.reqID(s), Body: p.B}
	return e.envelope(e.idx(s), cb), "special:" + name
}

func (e *env) genRegistration() ([]byte, string) {
	s := rig.NewSim(e.rng, []uint32{0x33330000 | uint32(e.rng.Intn(8)), 0x80000000 | e.rng.Uint32(), 0}[e.rng.Intn(3)])
	if e.rng.Intn(5) == 0 {
		s.Key = make([]byte, 32)
	}
	b := s.RegisterBytes()
	kind := "registration/valid"
	switch e.rng.Intn(6) {
	case 0:
		b = b[:e.rng.Intn(len(b))]
		binary.BigEndian.PutUint32(append(b, 0, 0, 0, 0), uint32(len(b)))
		kind = "registration/truncated"
	case 1:
		b[20+48+e.rng.Intn(len(b)-68)] ^= 0xff
		kind = "registration/corrupt"
	case 2:
		binary.BigEndian.PutUint32(b[8:], e.rng.Uint32())
		kind = "registration/header-id"
	case 3:
		if o := e.someSim(); o != nil {
			b = demon.Header(demon.Magic, o.ID, demon.CmdInit, 0, randBytes(e.rng, e.rng.Intn(100)))
			kind = "registration/reconnect"
		}
	}
	return b, kind
}

// pivotJobs makes the reply path walk queued pivot jobs (tasks for linked agents).
func (e *env) genPivotJobCheckin() ([]byte, string) {
	if e.sh.Links == 0 || len(e.sims) < 2 {
		return e.genCallback()
	}
	child := e.sims[1+e.rng.Intn(len(e.sims)-1)]
	if e.cyclic() {
		e.broken = true
		return e.genHeader()
	}
	e.nextID++
	rig.TaskSimple(e.r.TS, child.Hex(), e.nextID)
	e.pool[child.ID] = append(e.pool[child.ID], e.nextID)
	root := e.sims[0]
	return demon.Checkin(root.ID, root.Key, root.IV), "pivot-job-checkin"
}

func (e *env) next() reqCase {
	var b []byte
	var g string
	switch k := e.rng.Intn(20); {
	case k < 2:
		b, g = e.genRandom()
	case k < 5:
		b, g = e.genHeader()
	case k < 11:
		b, g = e.genCallback()
	case k < 16:
		b, g = e.genSpecial()
	case k < 18:
		b, g = e.genRegistration()
	default:
		b, g = e.genPivotJobCheckin()
	}
	rc := reqCase{Gen: g, Body: hex.EncodeToString(b)}
	if e.sh.Redir && e.rng.Intn(2) == 0 {
		rc.XFF = []string{"203.0.113.7", "203.0.113.7, 10.0.0.1", "", "not an address", "::1", "2001:db8::7, 203.0.113.7", ","}[e.rng.Intn(7)]
	}
	return rc
}

// burst sends the same kind of socket callback for ONE new socket id from several
// connections at once (the listener serves every request in its own goroutine): the
// rportfwd/socks tables are the only agent state with their own locks, and a lock that is
// not released on one path only shows when two requests meet there.
func (e *env) burst() (bodies [][]byte, kind string) {
	s := e.someSim()
	if s == nil {
		return nil, ""
	}
	e.burstOps = nil
	if e.sh.Links != 0 && len(e.sims) >= 2 && !e.cyclic() && e.rng.Intn(3) == 0 {
		// operators task a linked agent (its queue lock, then its parents') while the root
		// checks in and walks the queued pivot jobs (the root's queue lock): two lock orders
		// meet only here
		kind = "burst:task-linked-agent-vs-root-checkin"
		root := e.sims[0]
		// a job for every linked agent is waiting at the root already, so that the first of the
		// check-ins has pivot jobs in its batch
		for _, child := range e.sims[1:] {
			e.nextID++
			e.pool[child.ID] = append(e.pool[child.ID], e.nextID)
			rig.TaskSimple(e.r.TS, child.Hex(), e.nextID)
		}
		for k := 0; k < 4; k++ {
			bodies = append(bodies, demon.Checkin(root.ID, root.Key, root.IV))
			child := e.sims[1+e.rng.Intn(len(e.sims)-1)]
			e.nextID++
			id := e.nextID
			e.pool[child.ID] = append(e.pool[child.ID], id)
			e.burstOps = append(e.burstOps, func() { rig.TaskSimple(e.r.TS, child.Hex(), id) })
		}
		return bodies, kind
	}
	id := e.rng.Uint32()
	mk := func(sub uint32, vals ...uint32) []byte {
		var p demon.Pkg
		p.I32(sub)
		for _, v := range vals {
			p.I32(v)
		}
		return e.envelope(e.idx(s), demon.Callback{Cmd: demon.CmdSocket, ReqID: e.rng.Uint32(), Body: p.B})
	}
	switch e.rng.Intn(3) {
	case 0:
		kind = "burst:socket-open-same-id"
		for k := 0; k < 8; k++ {
			bodies = append(bodies, mk(0x10, id, 0x0100007f, 4444, 0x0100007f, 1))
		}
	case 1:
		kind = "burst:socket-open-close"
		for k := 0; k < 8; k++ {
			if k%2 == 0 {
				bodies = append(bodies, mk(0x10, id, 0x0100007f, 4444, 0x0100007f, 1))
			} else {
				bodies = append(bodies, mk(0x4, id, 1, 0x0100007f, 4444, 0x0100007f, 1))
			}
		}
	default:
		kind = "burst:socket-close-same-id"
		for k := 0; k < 8; k++ {
			bodies = append(bodies, mk(0x13, id, 2))
		}
	}
	return bodies, kind
}

func (e *env) execBurst(bodies [][]byte, kind string) *verdict {
	// hold every request at the entry of the table mutators for a moment so that several of
	// them are between "looked the id up" and "changed the table" at the same time
	verifhook.Set("agent.table.lock", func() { time.Sleep(200 * time.Microsecond) })
	defer verifhook.Set("agent.table.lock", nil)
	if len(e.burstOps) > 0 {
		// the same for the queue: a check-in pauses just before it takes its batch off
		verifhook.Set("queue.get.writeback", func() { time.Sleep(2 * time.Millisecond) })
		defer verifhook.Set("queue.get.writeback", nil)
	}
	var wg sync.WaitGroup
	start := make(chan struct{})
	for _, op := range e.burstOps {
		wg.Add(1)
		go func(op func()) {
			defer wg.Done()
			<-start
			op()
		}(op)
	}
	res := make([]rig.Resp, len(bodies))
	for i := range bodies {
		wg.Add(1)
		go func(i int) {
			defer wg.Done()
			<-start
			res[i] = rig.Post(e.eng, e.path, bodies[i], nil)
		}(i)
	}
	close(start)
	done := make(chan struct{})
	go func() { wg.Wait(); close(done) }()
	select {
	case <-done:
	case <-time.After(6 * time.Second):
		// requests that normally take microseconds have not returned: the verdict is the
		// lock probe, not the clock
		if held := observe.HeldAgentLocks(e.r.TS, 2*time.Second); len(held) > 0 {
			return &verdict{"lock-held", fmt.Sprintf("during a %s (8 concurrent requests) some requests never returned and these agent mutexes stay locked: %v", kind, held)}
		}
		select {
		case <-done:
		case <-time.After(60 * time.Second):
			return &verdict{"burst-stuck-no-lock-held", fmt.Sprintf("a %s did not complete within 75 s although no agent mutex is held", kind)}
		}
	}
	for _, r := range res {
		if r.Panic != nil {
			return &verdict{lib.PanicSig(r.Panic, r.Stack), fmt.Sprintf("handler panics during a %s: %v", kind, r.Panic)}
		}
	}
	if held := observe.HeldAgentLocks(e.r.TS, 500*time.Millisecond); len(held) > 0 {
		return &verdict{"lock-held", fmt.Sprintf("after a %s (8 concurrent requests) these agent mutexes stay locked: %v", kind, held)}
	}
	return nil
}

// ---- monitors ----

type verdict struct{ sig, what string }

func (e *env) snapshot() observe.State {
	return observe.Snapshot(e.r.TS, "", e.loot)
}

func (e *env) exec(rc reqCase, deep bool) *verdict {
	body, _ := hex.DecodeString(rc.Body)
	before := e.snapshot()
	var dbBefore []string
	if deep {
		dbBefore = e.dbRows()
	}
	var hdr map[string]string
	if rc.XFF != "" {
		hdr = map[string]string{"X-Forwarded-For": rc.XFF}
	}
	e.rec.Take()
	resp := rig.Post(e.eng, e.path, body, hdr)
	if resp.Panic != nil {
		return &verdict{lib.PanicSig(resp.Panic, resp.Stack), fmt.Sprintf("handler panics on %s request (%d bytes, X-Forwarded-For %q): %v", rc.Gen, len(body), rc.XFF, resp.Panic)}
	}
	// a request whose magic value is neither the Demon's nor a registered agent type's is
	// nobody's traffic: beyond looking the value up, the listener has no business with the
	// teamserver for it (not even the last-seen bookkeeping of the session its id field names)
	if resp.Status == 404 && !e.sh.External && len(body) >= 8 {
		if m := binary.BigEndian.Uint32(body[4:8]); m != demon.Magic && !(e.sh.Service && m == svcMagic) {
			for _, ef := range e.rec.Take() {
				built := false // a session of the state shape itself (a replay has it, too)
				for _, sm := range e.sims {
					built = built || sm.Hex() == ef.Agent
				}
				if ef.Call != "AgentExist" && ef.Call != "ServiceAgentExist" && built {
					return &verdict{"rejected-request-touched-session:" + ef.Call, fmt.Sprintf("%s request with the unknown magic value %#x was answered with the decoy, yet the listener called %s for session %s", rc.Gen, m, ef.Call, ef.Agent)}
				}
			}
		}
	}
	if resp.Status != 200 && resp.Status != 404 {
		return &verdict{fmt.Sprintf("status:%d", resp.Status), fmt.Sprintf("%s request answered with status %d (neither protocol reply nor decoy)", rc.Gen, resp.Status)}
	}
	if held := observe.HeldAgentLocks(e.r.TS, 300*time.Millisecond); len(held) > 0 {
		return &verdict{"lock-held", fmt.Sprintf("after a %s request these agent mutexes stay locked: %v", rc.Gen, held)}
	}
	if resp.Status == 404 {
		after := e.snapshot()
		if before.JSON() != after.JSON() {
			d := observe.Diff(before, after)
			return &verdict{"rejected-request-changed-state:" + diffClass(d), fmt.Sprintf("%s request was answered with the decoy but changed state: %v", rc.Gen, d)}
		}
		if deep {
			if a := e.dbRows(); fmt.Sprint(a) != fmt.Sprint(dbBefore) {
				return &verdict{"rejected-request-changed-state:database", fmt.Sprintf("%s request was answered with the decoy but changed the database", rc.Gen)}
			}
		}
	}
	return nil
}

func (e *env) dbRows() []string {
	a, _ := observe.DBRows(e.dbPath, "TS_Agents", "LastCallIn", "FirstCallIn")
	l, _ := observe.DBRows(e.dbPath, "TS_Links")
	return append(a, l...)
}

func diffClass(d []string) string {
	if len(d) == 0 {
		return "?"
	}
	s := d[0]
	for i, c := range s {
		if c == ':' {
			return s[:i]
		}
	}
	return s
}

func run(c *lib.Ctx) {
	c.Rule("requests = random bytes | valid header + random tail | reference-encoded callback layouts with one field-level corruption (truncate, length prefix 0/1/len±1/2^31/2^32-1, cut inside a field, bit flips, sub-command, trailing bytes, empty strings) | hand-written hostile bodies for decoders with counts/loops/nesting | registrations (valid, truncated, corrupt, reconnect) | check-ins walking queued pivot jobs | bursts of 8 concurrent socket callbacks for one new socket id (every 25th case); " +
		"sent to 14 state shapes (agents 0/1/3 x outstanding ids x SendLogs x open downloads x pivot links x Service block x External endpoint). distinct = distinct request bytes; non-trivial = longer than the 20-byte header")
	c.Assume("requests enter through the listener's gin engine in-process (ServeHTTP on a recorder), so a panic is observed with its stack instead of being swallowed by net/http",
		"'not valid traffic' is read as 'answered with the decoy 404' (weakest reading)", "hangs are detected by the per-shard watchdog over the on-disk current input and confirmed in isolation by the driver")
	if c.Replay != nil {
		var bw struct {
			Shape shape    `json:"shape"`
			Seed  int64    `json:"seed"`
			Burst []string `json:"burst"`
			Kind  string   `json:"kind"`
		}
		if json.Unmarshal(c.Replay, &bw) == nil && len(bw.Burst) > 0 {
			// schedule dependent: repeat the burst up to 300 times on fresh socket ids of the same kind
			e, err := build(bw.Shape, bw.Seed)
			if err != nil {
				c.Inconclusive("replay setup: " + err.Error())
				return
			}
			defer e.close()
			for k := 0; k < 300; k++ {
				var bodies [][]byte
				kind := ""
				for kind != bw.Kind {
					bodies, kind = e.burst()
				}
				c.Eval()
				if v := e.execBurst(bodies, kind); v != nil {
					c.Violation(v.sig, v.what, bw)
					return
				}
			}
			return
		}
		var w witness
		if json.Unmarshal(c.Replay, &w) != nil {
			c.Inconclusive("unreadable witness")
			return
		}
		e, err := build(w.Shape, w.Seed)
		if err != nil {
			// the witness of a setup failure is the shape itself: valid traffic cannot build it
			c.Eval()
			c.Violation("setup:"+lib.Classify(err.Error()), "valid traffic could not build the state shape: "+err.Error(), witness{Shape: w.Shape, Seed: w.Seed})
			return
		}
		defer e.close()
		if w.Req.Body == "" && len(w.History) == 0 {
			c.Eval() // a setup witness, and the setup works now
			return
		}
		for _, sm := range e.sims {
			for _, id := range w.Pool[sm.Hex()] {
				rig.TaskSimple(e.r.TS, sm.Hex(), id)
			}
			if len(w.Pool[sm.Hex()]) > 0 {
				root := e.sims[e.chain(e.idx(sm))[0]]
				rig.Post(e.eng, e.path, demon.Checkin(root.ID, root.Key, root.IV), nil)
			}
		}
		for _, h := range w.History {
			b, _ := hex.DecodeString(h.Body)
			rig.Post(e.eng, e.path, b, nil)
		}
		c.Eval()
		if v := e.exec(w.Req, true); v != nil {
			c.Violation(v.sig, v.what, w)
		}
		return
	}
	total := c.N(26000, 1000000)
	// every shard visits shapes round-robin starting at its own index so that 12 shapes are
	// covered whatever the shard count is
	perShape := total / 3
	if perShape < 1 {
		perShape = 1
	}
	for round := 0; round < 3; round++ {
		sh := shapes[(c.Shard+round*5)%len(shapes)]
		seed := c.Rng.Int63()
		e, err := build(sh, seed)
		if err != nil {
			// a setup failure on the unchanged tree is a harness problem, on a changed tree
			// it may be the change: report as violation of the valid-traffic precondition
			c.Violation("setup:"+lib.Classify(err.Error()), "valid traffic could not build the state shape: "+err.Error(), witness{Shape: sh, Seed: seed})
			continue
		}
		c.Observe(fmt.Sprintf("shape.%d", (c.Shard+round*5)%len(shapes)), 1)
		var hist []reqCase
		poolAt := e.poolCopy()
		for i := 0; i < perShape; i++ {
			if e.broken {
				c.Observe("env.rebuilt-after-parent-cycle", 1)
				e.close()
				if e, err = build(sh, seed); err != nil {
					break
				}
				hist, poolAt = nil, e.poolCopy()
			}
			if len(hist) == 0 {
				poolAt = e.poolCopy()
			}
			if c.ViolationCount() >= 8 {
				// enough witnesses; every further one costs a rebuild (and a bounded wait for wedges)
				c.Observe("stopped-early-after-8-violations", 1)
				break
			}
			if i%25 == 24 && len(e.sims) > 0 {
				bodies, kind := e.burst()
				var hx []string
				for _, b := range bodies {
					hx = append(hx, hex.EncodeToString(b))
				}
				bw := map[string]any{"shape": sh, "seed": seed, "burst": hx, "kind": kind}
				wb, _ := json.Marshal(bw)
				c.Cur("burst", wb)
				c.Eval()
				c.Observe("gen.burst", 1)
				c.Observe(kind, 1)
				if v := e.execBurst(bodies, kind); v != nil {
					c.Violation(v.sig, v.what, bw)
					e.close()
					if e, err = build(sh, seed); err != nil {
						break
					}
					hist = nil
				}
				continue
			}
			rc := e.next()
			body, _ := hex.DecodeString(rc.Body)
			w := witness{Shape: sh, Seed: seed, History: append([]reqCase{}, hist...), Req: rc, Pool: poolAt}
			wb, _ := json.Marshal(w)
			c.Cur("request", wb)
			c.Eval()
			if len(body) > 20 {
				c.DistinctBytes(body)
			}
			c.Observe("gen."+genClass(rc.Gen), 1)
			if strings.HasPrefix(rc.Gen, "special:") {
				c.Observe(rc.Gen, 1)
			}
			c.SampleSome(5000, func() any { return map[string]any{"shape": sh, "gen": rc.Gen, "body": clip(rc.Body, 160)} })
			v := e.exec(rc, i%64 == 0)
			if v != nil {
				c.Violation(v.sig, v.what, w)
				// state after a panic is not trustworthy: rebuild
				e.close()
				e, err = build(sh, seed)
				if err != nil {
					break
				}
				hist = nil
				continue
			}
			hist = append(hist, rc)
			if len(hist) > 6 {
				hist = nil
			}
		}
		if e != nil {
			e.close()
		}
	}
}

func (e *env) poolCopy() map[string][]uint32 {
	m := map[string][]uint32{}
	for _, s := range e.sims {
		m[s.Hex()] = append([]uint32{}, e.pool[s.ID]...)
	}
	return m
}

func genClass(g string) string {
	for i, ch := range g {
		if ch == ':' || ch == '/' {
			return g[:i]
		}
	}
	return g
}

func clip(s string, n int) string {
	if len(s) > n {
		return s[:n] + "…"
	}
	return s
}
