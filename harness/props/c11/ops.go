package c11

import (
	"Havoc/pkg/packager"
	"errors"
	"fmt"
	"math/rand"
	"time"

	"Havoc/cmd/server"
	"Havoc/pkg/handlers"

	"verifh/opclient"
)

// ---------------------------------------------------------------------------------
// Sequential history operations. Each one is issued at a point where the previous one has
// been recorded (its broadcast was seen), so the order of the retained log is fixed.
// A wait that expires returns *syncErr (never a verdict by itself).
// ---------------------------------------------------------------------------------

func waitPred(c *opclient.Client, from int, pred func(opclient.Frame) bool) bool {
	_, ok := c.WaitFor(func(f opclient.Frame) bool { return f.Seq >= from && pred(f) }, syncWait)
	return ok
}

func (w *world) opChat(by int, oneShot bool) error {
	tok := w.token()
	c := w.mons[by]
	src := "op:" + c.User
	var err error
	if oneShot {
		w.m.oneShot(tok, src)
		err = oneShotChat(c, "one-shot "+tok)
	} else {
		w.m.retained(tok, src)
		err = c.Chat("chat " + tok)
	}
	if err != nil {
		return &syncErr{"chat send: " + err.Error()}
	}
	if !waitTok(c, tok, syncWait) {
		return &syncErr{"chat " + tok + " not echoed to its sender"}
	}
	return nil
}

// opDatedEvent records and broadcasts an event through the server API whose time stamp lies
// far from the others (the text "DD/MM/YYYY hh:mm:ss" of another month or year, as after a
// month's end or a clock step): its place in the retained log is where it was recorded.
func (w *world) opDatedEvent(stamp string) error {
	tok := w.token()
	w.m.retained(tok, "api:dated")
	pk := packager.Package{
		Head: packager.Head{Event: opclient.EvChat, User: "c11-api", Time: stamp},
		Body: packager.Body{SubEvent: opclient.ChatNewMessage, Info: map[string]any{"User": "c11-api", "Message": "dated " + tok}},
	}
	w.ts.EventAppend(pk)
	w.ts.EventBroadcast("", pk)
	if !waitTok(w.mons[0], tok, syncWait) {
		return &syncErr{"dated event " + tok + " not broadcast"}
	}
	return nil
}

func (w *world) opOutput(a *agentState, n int) error {
	var toks []string
	for i := 0; i < n; i++ {
		t := w.token()
		w.m.retained(t, "agent:"+a.Name)
		toks = append(toks, t)
	}
	if err := w.output(a, toks...); err != nil {
		return err
	}
	return nil
}

// opTask: operator `by` tasks agent a (sleep). The echo is awaited on another monitor: the
// sender is the "excluded" client of that broadcast by the code's intention.
func (w *world) opTask(by int, a *agentState) (string, error) {
	tok := w.token()
	c := w.mons[by]
	w.m.retained(tok, "op:"+c.User)
	w.agSeq++
	req := uint32(0x00A00000) + w.agSeq
	taskID := fmt.Sprintf("%08X", req)
	if err := c.Task(a.Name, "11", taskID, "sleep 7 3 "+tok, map[string]any{"Arguments": "7;3"}); err != nil {
		return tok, &syncErr{"task send: " + err.Error()}
	}
	other := w.mons[(by+1)%len(w.mons)]
	if !waitTok(other, tok, syncWait) {
		return tok, &syncErr{"task echo " + tok + " not delivered to another operator"}
	}
	if a.ReqID == 0 {
		a.ReqID = req
	}
	return tok, nil
}

func (w *world) opRegister(by int) (*agentState, error) {
	from := w.mons[0].Count()
	a, err := w.registerAgent()
	if err != nil {
		return nil, err
	}
	if !waitPred(w.mons[0], from, func(f opclient.Frame) bool {
		return f.Head.Event == opclient.EvSession && f.Body.SubEvent == opclient.SessNew && f.InfoStr("NameID") == a.Name
	}) {
		return nil, &syncErr{"NewSession of " + a.Name + " not broadcast"}
	}
	if _, err := w.opTask(by, a); err != nil {
		return nil, err
	}
	// first check-in fetches the job (console line "Send Task to Agent")
	if err := w.output(a); err != nil {
		return nil, err
	}
	return a, nil
}

func (w *world) lsnName() string {
	w.tokN++
	return fmt.Sprintf("lsn%dq%dz", w.id, w.tokN)
}

func isListenerAdd(name string) func(opclient.Frame) bool {
	return func(f opclient.Frame) bool {
		_, st := f.Body.Info["Status"]
		return f.Head.Event == opclient.EvListener && f.Body.SubEvent == opclient.ListenerAdd && st && f.InfoStr("Name") == name
	}
}

// opListenerAdd: SMB or External listener, through the server API (as the profile, the
// database restore and the service path do) or through an operator's Listener/Add request.
func (w *world) opListenerAdd(kind string, viaOperator bool, by int) (string, error) {
	name := w.lsnName()
	from := w.mons[0].Count()
	if viaOperator {
		info := map[string]any{"Name": name, "Protocol": kind}
		if kind == handlers.AGENT_PIVOT_SMB {
			info["PipeName"] = "pipe_" + name
		} else {
			info["Endpoint"] = "ep_" + name
		}
		if err := w.mons[by].Send(opclient.EvListener, opclient.ListenerAdd, info); err != nil {
			return name, &syncErr{"listener add send: " + err.Error()}
		}
	} else {
		var err error
		if kind == handlers.AGENT_PIVOT_SMB {
			err = w.ts.ListenerStart(handlers.LISTENER_PIVOT_SMB, handlers.SMBConfig{Name: name, PipeName: "pipe_" + name})
		} else {
			err = w.ts.ListenerStart(handlers.LISTENER_EXTERNAL, handlers.ExternalConfig{Name: name, Endpoint: "ep_" + name})
		}
		if err != nil {
			return name, fmt.Errorf("ListenerStart: %v", err)
		}
	}
	w.m.listenerAdded(name, viaOperator)
	if !waitPred(w.mons[0], from, isListenerAdd(name)) {
		return name, &syncErr{"Listener/Add " + name + " not broadcast"}
	}
	return name, nil
}

func (w *world) opListenerRemove(name string, by int) error {
	from := w.mons[by].Count()
	if err := w.mons[by].ListenerRemove(name); err != nil {
		return &syncErr{"listener remove send: " + err.Error()}
	}
	w.m.lst[name].Removed = true
	if !waitPred(w.mons[by], from, func(f opclient.Frame) bool {
		return f.Head.Event == opclient.EvListener && f.Body.SubEvent == opclient.ListenerRemove && f.InfoStr("Name") == name
	}) {
		return &syncErr{"Listener/Remove " + name + " not broadcast"}
	}
	// ListenerRemove gives up (keeps the listener and its announcement) when the database
	// delete fails, e.g. SQLITE_BUSY while another handler still writes; the Remove event
	// is broadcast all the same. That listener is neither removed nor present for the
	// purposes of this model: it is left out of the listener checks.
	if w.ts.ListenerExist(name) {
		w.m.lst[name].Removed = true
		w.m.lst[name].ViaOperator = true // = "not judged" in checkReplay
		w.removeFailed++
	}
	return nil
}

func (w *world) opListenerError(name string) error {
	from := w.mons[0].Count()
	w.ts.EventListenerError(name, errors.New("c11: induced listener failure"))
	w.m.lst[name].Errored = true
	if !waitPred(w.mons[0], from, func(f opclient.Frame) bool {
		return f.Head.Event == opclient.EvListener && f.Body.SubEvent == opclient.ListenerError && f.InfoStr("Name") == name
	}) {
		return &syncErr{"Listener/Error " + name + " not broadcast"}
	}
	return nil
}

func (w *world) opMark(by int, a *agentState, dead bool) error {
	from := w.mons[by].Count()
	mark := "Alive"
	if dead {
		mark = "Dead"
	}
	if err := w.mons[by].Mark(a.Name, mark); err != nil {
		return &syncErr{"mark send: " + err.Error()}
	}
	if dead {
		w.m.agentDead(a.Name)
		a.Dead = true
		if !waitPred(w.mons[by], from, func(f opclient.Frame) bool {
			return f.Head.Event == opclient.EvSession && f.Body.SubEvent == opclient.SessMark && f.InfoStr("AgentID") == a.Name
		}) {
			return &syncErr{"MarkAsDead " + a.Name + " not broadcast"}
		}
		return nil
	}
	// "Alive" is not broadcast by the server: order it with a chat of the same operator
	w.m.agentAlive(a.Name)
	a.Dead = false
	return w.opChat(by, true)
}

// opVisitor: a fourth operator logs in and leaves again (new-user / disconnected events).
func (w *world) opVisitor() error {
	from := w.mons[0].Count()
	keys0 := w.clientKeys()
	d, err := opclient.Connect(w.addr, "dave", "pw-dave")
	if err != nil {
		return &syncErr{"visitor login: " + err.Error()}
	}
	id := newKey(keys0, w.clientKeys())
	isChat := func(sub int) func(opclient.Frame) bool {
		return func(f opclient.Frame) bool {
			return f.Head.Event == opclient.EvChat && f.Body.SubEvent == sub && f.InfoStr("User") == "dave"
		}
	}
	if !waitPred(w.mons[0], from, isChat(opclient.ChatNewUser)) {
		d.Close()
		return &syncErr{"new-user event of visitor not broadcast"}
	}
	// the visitor's own replay must be over before it leaves (its handler does both)
	tok := w.token()
	w.m.oneShot(tok, "op:dave")
	oneShotChat(d, "visitor "+tok)
	if !waitTok(d, tok, syncWait) {
		d.Close()
		return &syncErr{"visitor marker not echoed"}
	}
	d.Close()
	if !waitPred(w.mons[0], from, isChat(opclient.ChatUserDisc)) {
		return &syncErr{"disconnect event of visitor not broadcast"}
	}
	return w.waitGone(id)
}

// history runs n random sequential operations.
func (w *world) history(rng *rand.Rand, n int, counts map[string]int) error {
	for i := 0; i < n; i++ {
		by := rng.Intn(len(w.mons))
		var err error
		kind := ""
		var liveAgs, deadAgs []*agentState
		for _, a := range w.ags {
			if a.Dead {
				deadAgs = append(deadAgs, a)
			} else if a.ReqID != 0 {
				liveAgs = append(liveAgs, a)
			}
		}
		var presentAPI, presentAny, removedAPI []string
		for _, n := range w.m.lstOrd {
			li := w.m.lst[n]
			if li.Removed && !li.ViaOperator {
				removedAPI = append(removedAPI, n)
			}
			if li.Removed || n == w.http.Config.Name {
				continue
			}
			presentAny = append(presentAny, n)
			if !li.ViaOperator && !li.Errored {
				presentAPI = append(presentAPI, n)
			}
		}
		switch r := rng.Intn(100); {
		case r < 22:
			kind = "chat"
			err = w.opChat(by, false)
		case r < 32:
			kind = "chat-one-shot"
			err = w.opChat(by, true)
		case r < 50 && len(liveAgs) > 0:
			kind = "agent-output"
			err = w.opOutput(liveAgs[rng.Intn(len(liveAgs))], 1+rng.Intn(3))
		case r < 58 && len(liveAgs) > 0:
			kind = "task"
			_, err = w.opTask(by, liveAgs[rng.Intn(len(liveAgs))])
		case r < 66 && len(w.ags) < 6:
			kind = "agent-register"
			_, err = w.opRegister(by)
		case r < 74:
			kind = "listener-add-api"
			k := handlers.AGENT_PIVOT_SMB
			if rng.Intn(2) == 0 {
				k = handlers.AGENT_EXTERNAL
			}
			_, err = w.opListenerAdd(k, false, by)
		case r < 79:
			kind = "listener-add-operator"
			k := handlers.AGENT_PIVOT_SMB
			if rng.Intn(2) == 0 {
				k = handlers.AGENT_EXTERNAL
			}
			_, err = w.opListenerAdd(k, true, by)
		case r < 87 && len(presentAny) > 0:
			kind = "listener-remove"
			err = w.opListenerRemove(presentAny[rng.Intn(len(presentAny))], by)
		case r < 89 && len(presentAPI) > 0:
			kind = "listener-error"
			err = w.opListenerError(presentAPI[rng.Intn(len(presentAPI))])
		case r < 90 && len(removedAPI) > 0:
			// a failure reported for a listener that has no announcement in the log (any more)
			kind = "listener-error-without-announcement"
			err = w.opListenerError(removedAPI[rng.Intn(len(removedAPI))])
		case r < 94 && len(liveAgs) > 1:
			kind = "mark-dead"
			err = w.opMark(by, liveAgs[rng.Intn(len(liveAgs))], true)
		case r < 96 && len(deadAgs) > 0:
			kind = "mark-alive"
			err = w.opMark(by, deadAgs[rng.Intn(len(deadAgs))], false)
		case r < 98:
			kind = "visitor"
			err = w.opVisitor()
		case r < 100:
			kind = "event-with-distant-time-stamp"
			err = w.opDatedEvent([]string{"31/12/2020 23:59:59", "01/01/2031 00:00:01", "02/11/2026 08:00:00", "30/09/2026 23:59:58"}[rng.Intn(4)])
		}
		if kind == "" {
			kind = "chat"
			err = w.opChat(by, false)
		}
		if counts != nil {
			counts[kind]++
		}
		if err != nil {
			return fmt.Errorf("%s: %w", kind, err)
		}
	}
	return nil
}

// ---------------------------------------------------------------------------------
// Newcomer login at quiescence and the end-of-replay marker.
// ---------------------------------------------------------------------------------

type loginResult struct {
	id      string // the teamserver's id of this connection ("" unknown)
	cl      *opclient.Client
	name    string
	replay  []opclient.Frame // frames strictly between verdict and marker
	verdict int              // index of the verdict frame
	marker  int
}

// loginAndMark logs a newcomer in over the given client connection and sends the marker:
// a one-shot chat of the newcomer itself. Its handler goroutine replays first and reads
// afterwards, so the marker's broadcast is written to the newcomer after the last replay
// frame: the frames between verdict and marker are the replay (at quiescence: nothing else).
func (w *world) loginAndMark(cl *opclient.Client, name string) (*loginResult, error) {
	ok, err := cl.Login(name, "pw-"+name, syncWait)
	if err != nil {
		return nil, &syncErr{"login: " + err.Error()}
	}
	if !ok {
		return nil, fmt.Errorf("login of %s rejected", name)
	}
	tok := w.token()
	w.m.oneShot(tok, "op:"+name)
	if err := oneShotChat(cl, "MARK "+tok); err != nil {
		return nil, &syncErr{"marker send: " + err.Error()}
	}
	if !waitTok(cl, tok, syncWait) {
		return nil, &syncErr{"end-of-replay marker not echoed to the newcomer"}
	}
	fr := cl.Frames()
	res := &loginResult{cl: cl, name: name, verdict: -1, marker: -1}
	for i, f := range fr {
		if res.verdict < 0 && f.Head.Event == opclient.EvInit && f.Body.SubEvent == opclient.InitSuccess {
			res.verdict = i
		}
		if res.marker < 0 {
			for _, t := range frameTokens(f) {
				if t == tok {
					res.marker = i
				}
			}
		}
	}
	if res.verdict < 0 || res.marker < res.verdict {
		return nil, fmt.Errorf("no verdict/marker in newcomer's frames")
	}
	res.replay = fr[res.verdict+1 : res.marker]
	if res.verdict != 0 {
		return res, fmt.Errorf("frames before the login verdict: %d", res.verdict)
	}
	return res, nil
}

// quiescentLoginCheck: barrier, snapshot, newcomer login, snapshot, judge.
func (w *world) quiescentLoginCheck(dial func() (*opclient.Client, error)) (*loginResult, []finding, error) {
	if err := w.barrier(); err != nil {
		return nil, nil, err
	}
	s0 := snapshotLog(w.ts.EventsList)
	keys0 := w.clientKeys()
	cl, err := dial()
	if err != nil {
		return nil, nil, &syncErr{"newcomer dial: " + err.Error()}
	}
	name := w.newcomerName()
	res, err := w.loginAndMark(cl, name)
	if err != nil {
		cl.Close()
		return nil, nil, err
	}
	res.id = newKey(keys0, w.clientKeys())
	// the other operators have been told about the newcomer before we look again
	if err := w.barrier(); err != nil {
		cl.Close()
		return nil, nil, err
	}
	s1 := snapshotLog(w.ts.EventsList)
	fs := w.m.checkReplay(res.replay, s0, s1, name)
	return res, fs, nil
}

// leave closes a newcomer's connection and waits until the teamserver has recorded it.
func (w *world) leave(res *loginResult) error {
	from := w.mons[0].Count()
	res.cl.Close()
	if !waitPred(w.mons[0], from, func(f opclient.Frame) bool {
		return f.Head.Event == opclient.EvChat && f.Body.SubEvent == opclient.ChatUserDisc && f.InfoStr("User") == res.name
	}) {
		return &syncErr{"disconnect of " + res.name + " not broadcast"}
	}
	return w.waitGone(res.id)
}

func newKey(before, after map[string]*server.Client) string {
	for k := range after {
		if _, old := before[k]; !old {
			return k
		}
	}
	return ""
}

// waitGone waits until the teamserver has dropped a connection from its client table: the
// Delete is the last step of RemoveClient, after its own broadcast, so nothing caused by
// that connection is in flight any more.
func (w *world) waitGone(id string) error {
	if id == "" {
		return nil
	}
	deadline := time.Now().Add(syncWait)
	for time.Now().Before(deadline) {
		if _, ok := w.ts.Clients.Load(id); !ok {
			return nil
		}
		time.Sleep(time.Millisecond)
	}
	return &syncErr{"connection " + id + " never left the client table"}
}
