package c11

import (
	"bytes"
	"encoding/base64"
	"encoding/json"
	"fmt"
	"regexp"
	"runtime"
	"strings"
	"sync"
	"sync/atomic"
	"time"

	"Havoc/cmd/server"
	"Havoc/pkg/handlers"
	"Havoc/pkg/verifhook"

	"verifh/demon"
	"verifh/opclient"
	"verifh/rig"
)

// ---------------------------------------------------------------------------------
// The world: one in-process teamserver (real Start()), monitor operators on direct
// connections, reference Demons behind a real HTTP listener engine, and the model of what
// has been recorded so far.
// ---------------------------------------------------------------------------------

const (
	// syncWait bounds every wait for something the harness itself caused (echo of a chat,
	// barrier). Its expiry is never a verdict: it starts the wedge analysis (§2.6).
	syncWait = 20 * time.Second
)

var monitorNames = []string{"alice", "bob", "carol"}

func operatorList() []rig.Operator {
	ops := []rig.Operator{{Name: "alice", Password: "pw-alice"}, {Name: "bob", Password: "pw-bob"},
		{Name: "carol", Password: "pw-carol"}, {Name: "dave", Password: "pw-dave"}}
	for i := 0; i < 48; i++ {
		ops = append(ops, rig.Operator{Name: fmt.Sprintf("nc%02d", i), Password: fmt.Sprintf("pw-nc%02d", i)})
	}
	return ops
}

type agentState struct {
	ID    uint32
	Name  string // %08x
	Key   []byte
	IV    []byte
	ReqID uint32 // outstanding request id (callbacks carrying it are accepted)
	Dead  bool
	mu    sync.Mutex // one request at a time per agent (a Demon is sequential)
}

type world struct {
	r            *rig.Rig
	ts           *server.Teamserver
	addr         string
	http         *handlers.HTTP
	mons         []*opclient.Client
	ags          []*agentState
	m            *model
	dirty        bool // a goroutine of this teamserver is known to be blocked: never reuse
	nc           int  // newcomer name counter
	agSeq        uint32
	scen         int     // scenarios run in this world
	calib        []int64 // cumulative server->client byte offsets of TLS record ends of a quiescent login
	tokN         int
	id           int
	bornToks     []string
	removeFailed int
	first        string // listener whose announcement is entry 0 of the retained log
	firstRemoved bool
}

var worldSeq atomic.Int64

// hook control (process global: the hook table is global as well)
var (
	hookPauseNs  atomic.Int64 // >0: sleep that long at ws.send.locked when called below RemoveClient
	hookYield    atomic.Bool  // Gosched at every ws.send.locked
	hookPauses   atomic.Int64
	hookInstall  sync.Once
	replayGateMu sync.Mutex
	replayGate   func() // run at ws.before_replay (racing logins)
)

func installHooks() {
	hookInstall.Do(func() {
		verifhook.Set("ws.send.locked", func() {
			if d := hookPauseNs.Load(); d > 0 && calledBelow("RemoveClient") {
				hookPauses.Add(1)
				time.Sleep(time.Duration(d))
				return
			}
			if hookYield.Load() {
				runtime.Gosched()
			}
			if f := hookMid.Load(); f != nil {
				(*f)()
			}
		})
		verifhook.Set("ws.before_replay", func() {
			replayGateMu.Lock()
			f := replayGate
			replayGateMu.Unlock()
			if f != nil {
				f()
			}
		})
	})
}

func setReplayGate(f func()) {
	replayGateMu.Lock()
	replayGate = f
	replayGateMu.Unlock()
}

// calledBelow reports whether a function whose name ends in "."+name is on the stack of
// the calling goroutine.
func calledBelow(name string) bool {
	var pcs [24]uintptr
	n := runtime.Callers(3, pcs[:])
	fr := runtime.CallersFrames(pcs[:n])
	for {
		f, more := fr.Next()
		if strings.HasSuffix(f.Function, "."+name) {
			return true
		}
		if !more {
			return false
		}
	}
}

func newWorld() (*world, error) {
	installHooks()
	// as after a start with a listener in the profile: the oldest entry of the retained log is
	// that listener's announcement, recorded before any operator has connected
	id := int(worldSeq.Add(1))
	first := fmt.Sprintf("c11-first-%d", id)
	r, err := rig.New(rig.Options{Full: true, Operators: operatorList(),
		ExtraProfile: fmt.Sprintf("Listeners {\n    Smb {\n        Name = %q\n        PipeName = %q\n    }\n}\n", first, "p"+first)})
	if err != nil {
		return nil, err
	}
	w := &world{r: r, ts: r.TS, addr: fmt.Sprintf("127.0.0.1:%d", r.Port), m: newModel(), id: id, first: first}
	w.m.listenerAdded(w.first, false)
	if l := snapshotLog(r.TS.EventsList); len(l) == 0 || listenerOf(l[0]) != w.first {
		return nil, fmt.Errorf("first listener: its announcement is not entry 0 of the retained log (%d entries)", len(l))
	}
	for _, n := range monitorNames {
		var c *opclient.Client
		var err error
		for try := 0; try < 4; try++ { // a reset during the TLS handshake on a loaded machine is not the code's doing
			if c, err = opclient.Connect(w.addr, n, "pw-"+n); err == nil {
				break
			}
			time.Sleep(200 * time.Millisecond)
		}
		if err != nil {
			return nil, fmt.Errorf("monitor %s: %v", n, err)
		}
		w.mons = append(w.mons, c)
	}
	// every monitor must have seen every other monitor's arrival before anything is judged
	if err := w.barrier(); err != nil {
		return nil, err
	}
	h, err := r.StartHTTP(handlers.HTTPConfig{Name: fmt.Sprintf("c11-http-%d", w.id)})
	if err != nil {
		return nil, err
	}
	w.http = h
	w.m.listenerAdded(h.Config.Name, false)
	return w, nil
}

func (w *world) close() {
	for _, t := range w.bornToks {
		born.Delete(t)
	}
	w.bornToks = nil
	for _, m := range w.mons {
		m.Close()
	}
	w.r.Close()
}

// token draws a fresh token and remembers how many frames every monitor had received at
// that moment: a frame carrying the token can only arrive later, so waits need not rescan
// a monitor's whole history.
func (w *world) token() string {
	w.tokN++
	t := fmt.Sprintf("tk%dq%dz", w.id, w.tokN)
	if len(w.mons) > 0 {
		b := &bornRec{cl: w.mons}
		for _, m := range w.mons {
			b.n = append(b.n, m.Count())
		}
		born.Store(t, b)
		w.bornToks = append(w.bornToks, t)
	}
	return t
}

type bornRec struct {
	cl []*opclient.Client
	n  []int
}

var born sync.Map // token -> *bornRec

func bornAt(c *opclient.Client, tok string) int {
	if v, ok := born.Load(tok); ok {
		b := v.(*bornRec)
		for i, m := range b.cl {
			if m == c {
				return b.n[i]
			}
		}
	}
	return 0
}

var tokRe = regexp.MustCompile(`tk[0-9]+q[0-9]+z`)

// frameTokens returns the harness tokens carried by one received frame (chat text, task
// command line, console output inside the base64 JSON, listener name, agent id).
func frameTokens(f opclient.Frame) []string {
	var out []string
	seen := map[string]bool{}
	add := func(b []byte) {
		for _, t := range tokRe.FindAll(b, -1) {
			if !seen[string(t)] {
				seen[string(t)] = true
				out = append(out, string(t))
			}
		}
	}
	add(f.Raw)
	if f.Head.Event == opclient.EvSession && f.Body.SubEvent == opclient.SessOutput {
		if s := f.InfoStr("Output"); s != "" {
			if b, err := base64.StdEncoding.DecodeString(s); err == nil {
				add(b)
			}
		}
	}
	return out
}

func (w *world) newcomerName() string {
	n := fmt.Sprintf("nc%02d", w.nc%48)
	w.nc++
	return n
}

// waitTok waits until client c has received a frame carrying tok.
func waitTok(c *opclient.Client, tok string, d time.Duration) bool {
	from := bornAt(c, tok)
	_, ok := c.WaitFor(func(f opclient.Frame) bool {
		if f.Seq < from {
			return false
		}
		if !bytes.Contains(f.Raw, []byte(tok)) {
			if f.Head.Event == opclient.EvSession && f.Body.SubEvent == opclient.SessOutput {
				for _, t := range frameTokens(f) {
					if t == tok {
						return true
					}
				}
			}
			return false
		}
		return true
	}, d)
	return ok
}

// oneShotChat sends a chat package whose Head.OneTime is "true": broadcast, not retained.
func oneShotChat(c *opclient.Client, text string) error {
	b, _ := json.Marshal(map[string]any{
		"Head": map[string]any{"Event": opclient.EvChat, "User": c.User, "Time": "", "OneTime": "true"},
		"Body": map[string]any{"SubEvent": opclient.ChatNewMessage, "Info": map[string]any{"User": c.User, "Message": text}},
	})
	return c.SendRaw(b)
}

type syncErr struct{ what string }

func (e *syncErr) Error() string { return e.what }

// barrier: monitor 0 sends a one-shot chat; once a monitor has received it, every frame
// written to that monitor before the barrier was broadcast has arrived (writes to one
// connection are serialised, TCP keeps order). Sources must have completed before.
func (w *world) barrier() error { return w.barrierVia(0) }

func (w *world) barrierVia(by int) error {
	// (1) monitor `by` sends four one-shot chats in a row: its handler finishes
	// broadcasting one before it reads the next, so whoever holds a later one must hold
	// every earlier one (a gap is a lost broadcast, logically, without any deadline).
	// (2) every other monitor sends one fence chat. Once every monitor has received the
	// last message of every monitor, each operator handler has written its final
	// broadcast to all clients that can acknowledge: nothing an operator caused is in
	// flight (an echo to the sender alone would not show that: the sender may be the
	// first client the broadcast visits).
	const k = 4
	var toks []string
	for i := 0; i < k; i++ {
		t := w.token()
		w.m.oneShot(t, "barrier:"+w.mons[by].User)
		toks = append(toks, t)
	}
	last := []string{toks[k-1]}
	defer func() { w.m.lastBarrier = last }()
	for i, m := range w.mons {
		if i == by {
			for _, t := range toks {
				if err := oneShotChat(m, "BARRIER "+t); err != nil {
					return &syncErr{"barrier send: " + err.Error()}
				}
			}
			continue
		}
		t := w.token()
		w.m.oneShot(t, "barrier:"+m.User)
		if err := oneShotChat(m, "FENCE "+t); err != nil {
			return &syncErr{"fence send: " + err.Error()}
		}
		last = append(last, t)
	}
	deadline := time.Now().Add(syncWait)
	var late error
	for i, m := range w.mons {
		for _, t := range last {
			d := time.Until(deadline)
			if d < 0 {
				d = 0
			}
			if !waitTok(m, t, d) && late == nil {
				late = &syncErr{fmt.Sprintf("barrier %s not delivered to monitor %d (closed=%v)", t, i, m.Closed())}
			}
		}
	}
	for _, m := range w.mons {
		highest := -1
		for i := range toks {
			if waitTok(m, toks[i], 0) {
				highest = i
			}
		}
		for i := 0; i < highest; i++ {
			if !waitTok(m, toks[i], 0) {
				return &lossErr{finding{Sig: "live:broadcast-not-delivered",
					What: "an authenticated operator received a later one of several consecutive broadcasts of one sender but not an earlier one",
					Det:  map[string]any{"operator": m.User, "token": toks[i], "source": "op:" + w.mons[by].User}}}
			}
		}
	}
	return late
}

// lossErr: a harness-side synchronisation step found a broadcast logically missing.
type lossErr struct{ f finding }

func (e *lossErr) Error() string { return e.f.Sig + ": " + e.f.What }

// ---- agents ----

func (w *world) post(body []byte) rig.Resp {
	return rig.Post(w.http.GinEngine, "/", body, nil)
}

// prepareAgent draws a new agent identity (coordinator only).
func (w *world) prepareAgent() *agentState {
	w.agSeq++
	id := uint32(0x11000000) + uint32(w.id&0xff)<<16 + w.agSeq
	a := &agentState{ID: id, Name: fmt.Sprintf("%08x", id)}
	a.Key = bytes.Repeat([]byte{byte(0x30 + w.agSeq%64)}, 32)
	a.IV = bytes.Repeat([]byte{byte(0x51 + w.agSeq%64)}, 16)
	return a
}

// commitAgent tells the world and the model that a registration went through (coordinator only).
func (w *world) commitAgent(a *agentState) {
	w.ags = append(w.ags, a)
	w.m.agentRegistered(a.Name)
}

func (w *world) registerAgent() (*agentState, error) {
	a := w.prepareAgent()
	if err := w.sendRegister(a); err != nil {
		return nil, err
	}
	w.commitAgent(a)
	return a, nil
}

// sendRegister posts the DEMON_INIT package (any goroutine).
func (w *world) sendRegister(a *agentState) error {
	id := a.ID
	m := &demon.Meta{AgentID: id, Hostname: "HOST" + a.Name, Username: "user", Domain: "DOM", InternalIP: "10.0.0.1",
		ProcessPath: "C:\\x\\proc.exe", PID: 10, TID: 11, PPID: 12, Arch: 2, Elevated: 1, BaseAddr: 0x7ff000,
		OS: [5]uint32{10, 0, 1, 0, 19045}, OSArch: 9, Sleep: 5, Jitter: 10}
	resp := w.post(demon.Register(id, a.Key, a.IV, m))
	if resp.Panic != nil {
		return fmt.Errorf("registration panicked: %v", resp.Panic)
	}
	if resp.Status != 200 {
		return fmt.Errorf("registration answered %d", resp.Status)
	}
	return nil
}

// output posts one check-in carrying COMMAND_OUTPUT callbacks (one console event each).
func (w *world) output(a *agentState, toks ...string) error {
	a.mu.Lock()
	defer a.mu.Unlock()
	var cbs []demon.Callback
	for _, t := range toks {
		var p demon.Pkg
		p.Str("out " + t)
		cbs = append(cbs, demon.Callback{Cmd: 90, ReqID: a.ReqID, Body: p.B})
	}
	resp := w.post(demon.Checkin(a.ID, a.Key, a.IV, cbs...))
	if resp.Panic != nil {
		return fmt.Errorf("check-in panicked: %v\n%s", resp.Panic, resp.Stack)
	}
	if resp.Status != 200 {
		return fmt.Errorf("check-in answered %d", resp.Status)
	}
	return nil
}

// clientKeys lists the ids in the teamserver's client table.
func (w *world) clientKeys() map[string]*server.Client {
	out := map[string]*server.Client{}
	w.ts.Clients.Range(func(k, v any) bool {
		out[k.(string)] = v.(*server.Client)
		return true
	})
	return out
}
