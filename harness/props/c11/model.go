package c11

import (
	"encoding/json"
	"fmt"
	"reflect"
	"sort"

	"Havoc/pkg/packager"

	"verifh/opclient"
)

// ---------------------------------------------------------------------------------
// Independent model of what the harness caused to be recorded. It never reads the
// teamserver: tokens are registered when the harness issues an operation.
//   phase: sequential operations get their own increasing phase number (their relative
//          order in the retained log is fixed); tokens issued by concurrent sources
//          share one phase number (only per-source order is fixed).
// ---------------------------------------------------------------------------------

type tokInfo struct {
	Src      string
	Seq      int
	Phase    int
	Retained bool // must be replayed exactly once
	Conc     bool // issued while other writers were active
}

type lstInfo struct {
	ViaOperator bool
	Removed     bool
	Errored     bool
}

type model struct {
	toks        map[string]*tokInfo
	phase       int
	srcSeq      map[string]int
	active      []string // live agents in registration order
	dead        map[string]bool
	lst         map[string]*lstInfo
	lstOrd      []string
	inConc      bool
	concPh      int
	lastBarrier []string // last message of every monitor in the latest barrier
}

func newModel() *model {
	return &model{toks: map[string]*tokInfo{}, srcSeq: map[string]int{}, dead: map[string]bool{}, lst: map[string]*lstInfo{}}
}

func (m *model) add(tok, src string, retained bool) {
	m.srcSeq[src]++
	ph := 0
	if m.inConc {
		ph = m.concPh
	} else {
		m.phase++
		ph = m.phase
	}
	m.toks[tok] = &tokInfo{Src: src, Seq: m.srcSeq[src], Phase: ph, Retained: retained, Conc: m.inConc}
}

func (m *model) retained(tok, src string) { m.add(tok, src, true) }
func (m *model) oneShot(tok, src string)  { m.add(tok, src, false) }

// beginConcurrent / endConcurrent bracket a phase with several simultaneous writers. The
// model is only written by the coordinating goroutine: sources get their tokens up front.
func (m *model) beginConcurrent() {
	m.phase++
	m.concPh = m.phase
	m.inConc = true
}
func (m *model) endConcurrent() { m.inConc = false }

func (m *model) agentRegistered(name string) { m.active = append(m.active, name) }
func (m *model) agentDead(name string)       { m.dead[name] = true }
func (m *model) agentAlive(name string)      { delete(m.dead, name) }
func (m *model) liveAgents() []string {
	var out []string
	for _, a := range m.active {
		if !m.dead[a] {
			out = append(out, a)
		}
	}
	return out
}

func (m *model) listenerAdded(name string, viaOperator bool) {
	m.lst[name] = &lstInfo{ViaOperator: viaOperator}
	m.lstOrd = append(m.lstOrd, name)
}

// ---------------------------------------------------------------------------------

type finding struct {
	Sig  string `json:"signature"`
	What string `json:"what"`
	Det  any    `json:"detail,omitempty"`
}

func canon(b []byte) (any, error) {
	var v any
	err := json.Unmarshal(b, &v)
	return v, err
}

func tailBriefs(s0, s1 [][]byte) []string {
	var out []string
	for i := len(s0); i < len(s1) && len(out) < 4; i++ {
		out = append(out, brief(s1[i]))
	}
	return out
}

func brief(b []byte) string {
	if len(b) > 300 {
		return string(b[:300]) + "…"
	}
	return string(b)
}

// snapshotLog copies the retained log at a quiescent point and renders every entry the
// way a client would see it.
func snapshotLog(list []packager.Package) [][]byte {
	out := make([][]byte, 0, len(list))
	for _, p := range list {
		b, _ := json.Marshal(p)
		out = append(out, b)
	}
	return out
}

// wholeFrames: each websocket message is exactly one JSON package.
func wholeFrames(frames []opclient.Frame) []finding {
	var out []finding
	for _, f := range frames {
		bad := f.BadErr
		if bad == "" {
			var top map[string]json.RawMessage
			if err := json.Unmarshal(f.Raw, &top); err != nil {
				bad = err.Error()
			} else if _, ok := top["Head"]; !ok {
				bad = "no Head member"
			} else if _, ok := top["Body"]; !ok {
				bad = "no Body member"
			}
		}
		if bad != "" {
			out = append(out, finding{Sig: "frame:not-one-whole-package", What: "a websocket message is not exactly one JSON package: " + bad,
				Det: map[string]any{"seq": f.Seq, "raw": brief(f.Raw)}})
			break
		}
	}
	return out
}

// checkReplay judges the frames a newcomer received between its login verdict and the
// end-of-replay marker, for a login made at quiescence.
//
//	replay  frames strictly between verdict and marker
//	s1      retained log right after the login (quiescent), rendered
//	self    newcomer's user name
func (m *model) checkReplay(replay []opclient.Frame, s0, s1 [][]byte, self string) []finding {
	var out []finding
	out = append(out, wholeFrames(replay)...)
	if len(out) > 0 {
		return out
	}

	// (1) one-shot events never replayed, never retained
	for i, b := range s1 {
		var p struct{ Head struct{ OneTime string } }
		json.Unmarshal(b, &p)
		if p.Head.OneTime == "true" {
			out = append(out, finding{Sig: "replay:one-shot-event-retained", What: "the retained log holds an event marked one-shot",
				Det: map[string]any{"index": i, "entry": brief(b)}})
			return out
		}
	}

	// (0) the login itself records exactly one new-user event, before the replay
	if len(s1) != len(s0)+1 {
		out = append(out, finding{Sig: "replay:login-recorded-unexpected-events",
			What: fmt.Sprintf("a login at quiescence changed the retained log from %d to %d entries (expected +1: the new-user event)", len(s0), len(s1)),
			Det:  map[string]any{"new_entries": tailBriefs(s0, s1)}})
		return out
	}

	// split: retained part, then live sessions
	n1 := len(s1)
	live := m.liveAgents()
	part1, part2 := replay, []opclient.Frame(nil)
	if len(replay) > n1 {
		part1, part2 = replay[:n1], replay[n1:]
	}

	// (2) retained part equals the retained log, entry by entry, in order
	diffAt := -1
	for i := 0; i < len(part1) && i < n1; i++ {
		a, _ := canon(part1[i].Raw)
		b, _ := canon(s1[i])
		if !reflect.DeepEqual(a, b) {
			diffAt = i
			break
		}
	}
	if diffAt >= 0 {
		f := part1[diffAt]
		sig := "replay:differs-from-retained-log"
		what := fmt.Sprintf("replayed frame %d is not retained entry %d", diffAt, diffAt)
		// classify: two neighbours swapped, extra frame (the rest lines up when it is
		// skipped), one entry skipped, or other order/content difference
		if diffAt+1 < len(replay) && diffAt+1 < n1 {
			a0, _ := canon(replay[diffAt].Raw)
			a1, _ := canon(replay[diffAt+1].Raw)
			b0, _ := canon(s1[diffAt])
			b1, _ := canon(s1[diffAt+1])
			if reflect.DeepEqual(a0, b1) && reflect.DeepEqual(a1, b0) {
				sig = "replay:out-of-order"
				what = fmt.Sprintf("retained entries %d and %d are replayed in the opposite order", diffAt, diffAt+1)
			}
		}
		if sig == "replay:differs-from-retained-log" && diffAt+1 < len(replay) {
			a, _ := canon(replay[diffAt+1].Raw)
			b, _ := canon(s1[diffAt])
			if reflect.DeepEqual(a, b) {
				sig = fmt.Sprintf("replay:extra-frame:%d/%d", f.Head.Event, f.Body.SubEvent)
				what = fmt.Sprintf("the newcomer received a frame (event %d/%d) that is not in the retained log at that position", f.Head.Event, f.Body.SubEvent)
			}
		}
		if sig == "replay:differs-from-retained-log" && diffAt+1 < n1 {
			a, _ := canon(f.Raw)
			b, _ := canon(s1[diffAt+1])
			if reflect.DeepEqual(a, b) {
				sig = "replay:retained-event-skipped"
				what = fmt.Sprintf("retained entry %d was not replayed", diffAt)
			}
		}
		out = append(out, finding{Sig: sig, What: what, Det: map[string]any{"index": diffAt, "got": brief(f.Raw), "want": brief(s1[diffAt])}})
		return out
	}
	if len(replay) < n1 {
		out = append(out, finding{Sig: "replay:retained-events-missing-at-end",
			What: fmt.Sprintf("replay ended after %d of %d retained events", len(replay), n1),
			Det:  map[string]any{"first_missing": brief(s1[len(replay)])}})
		return out
	}

	// (3) no one-shot frame / token in the retained part
	for i, f := range part1 {
		if f.Head.OneTime == "true" {
			out = append(out, finding{Sig: "replay:one-shot-event-replayed", What: "a frame marked one-shot was replayed from the log",
				Det: map[string]any{"index": i, "frame": brief(f.Raw)}})
			return out
		}
	}

	// (3b) sessions are announced after the log, never from it
	for i, f := range part1 {
		if f.Head.Event == opclient.EvSession && f.Body.SubEvent == opclient.SessNew {
			out = append(out, finding{Sig: "replay:session-announced-from-retained-log", What: "a new-session announcement is replayed from the retained log (sessions are announced once, after it)",
				Det: map[string]any{"index": i, "agent": f.InfoStr("NameID")}})
			return out
		}
	}

	// (4) tokens: exactly once each, sequential phases in issue order, per-source order
	seen := map[string]int{}
	var seq []string
	for _, f := range part1 {
		for _, t := range frameTokens(f) {
			seen[t]++
			if seen[t] == 1 {
				seq = append(seq, t)
			}
		}
	}
	var names []string
	for t := range m.toks {
		names = append(names, t)
	}
	sort.Strings(names)
	for _, t := range names {
		ti := m.toks[t]
		n := seen[t]
		suffix := ""
		if ti.Conc {
			suffix = "(concurrent-writers)"
		}
		switch {
		case ti.Retained && n == 0:
			out = append(out, finding{Sig: "replay:recorded-event-not-replayed" + suffix,
				What: "an event the harness caused to be recorded (and saw broadcast) is missing from a later replay", Det: map[string]any{"token": t, "source": ti.Src}})
			return out
		case ti.Retained && n > 1:
			out = append(out, finding{Sig: "replay:recorded-event-replayed-twice" + suffix,
				What: fmt.Sprintf("a recorded event is replayed %d times", n), Det: map[string]any{"token": t, "source": ti.Src}})
			return out
		case !ti.Retained && n > 0:
			out = append(out, finding{Sig: "replay:one-shot-event-replayed", What: "a one-shot event was replayed",
				Det: map[string]any{"token": t, "source": ti.Src}})
			return out
		}
	}
	lastPhase := 0
	lastSeq := map[string]int{}
	for _, t := range seq {
		ti := m.toks[t]
		if ti == nil {
			continue // token of another world/scenario kind: not ours to judge
		}
		if ti.Phase < lastPhase {
			out = append(out, finding{Sig: "replay:out-of-order", What: "events are replayed in another order than they were recorded",
				Det: map[string]any{"token": t, "phase": ti.Phase, "after_phase": lastPhase}})
			return out
		}
		lastPhase = ti.Phase
		if ti.Seq < lastSeq[ti.Src] {
			out = append(out, finding{Sig: "replay:out-of-order", What: "events of one source are replayed in another order than they were recorded",
				Det: map[string]any{"token": t, "source": ti.Src}})
			return out
		}
		lastSeq[ti.Src] = ti.Seq
	}

	// (5) listeners: removed ones are not announced, present ones exactly once
	adds := map[string][]opclient.Frame{}
	for _, f := range part1 {
		if f.Head.Event == opclient.EvListener && f.Body.SubEvent == opclient.ListenerAdd {
			if _, hasStatus := f.Body.Info["Status"]; hasStatus { // the server's own announcement (operator requests carry none)
				adds[f.InfoStr("Name")] = append(adds[f.InfoStr("Name")], f)
			}
		}
	}
	for _, name := range m.lstOrd {
		li := m.lst[name]
		got := adds[name]
		if li.Removed {
			if len(got) > 0 && !li.ViaOperator {
				out = append(out, finding{Sig: "replay:removed-listener-still-announced", What: "a listener that was removed is still announced to a newcomer",
					Det: map[string]any{"listener": name}})
				return out
			}
			continue
		}
		if len(got) != 1 {
			out = append(out, finding{Sig: "replay:present-listener-not-announced-once",
				What: fmt.Sprintf("a listener that still exists is announced %d times to a newcomer", len(got)), Det: map[string]any{"listener": name}})
			return out
		}
		want := "Online"
		if li.Errored {
			want = "Offline"
		}
		if got[0].InfoStr("Status") != want {
			out = append(out, finding{Sig: "replay:listener-status-wrong",
				What: fmt.Sprintf("listener announced with status %q, expected %q", got[0].InfoStr("Status"), want), Det: map[string]any{"listener": name}})
			return out
		}
	}

	// (6) then all live sessions, once each, and nothing else
	var gotIDs []string
	for _, f := range part2 {
		if f.Head.Event != opclient.EvSession || f.Body.SubEvent != opclient.SessNew {
			out = append(out, finding{Sig: fmt.Sprintf("replay:extra-frame:%d/%d", f.Head.Event, f.Body.SubEvent),
				What: "an unexpected frame follows the retained events of a replay made at quiescence", Det: map[string]any{"frame": brief(f.Raw)}})
			return out
		}
		gotIDs = append(gotIDs, f.InfoStr("NameID"))
	}
	if !reflect.DeepEqual(gotIDs, live) && !(len(gotIDs) == 0 && len(live) == 0) {
		sig := "replay:live-sessions-differ"
		gs := map[string]int{}
		for _, g := range gotIDs {
			gs[g]++
		}
		for _, g := range gotIDs {
			if m.dead[g] {
				sig = "replay:dead-session-announced-as-live"
			}
		}
		for _, l := range live {
			if gs[l] == 0 {
				sig = "replay:live-session-missing"
			} else if gs[l] > 1 {
				sig = "replay:live-session-announced-twice"
			}
		}
		out = append(out, finding{Sig: sig, What: "the sessions announced after the retained events are not exactly the live sessions",
			Det: map[string]any{"got": gotIDs, "want": live}})
	}
	return out
}

// checkLive judges what one online operator received during a phase: every broadcast
// token exactly once, whole frames, per-source order.
func (m *model) checkLive(frames []opclient.Frame, expect []string, who string) []finding {
	out := wholeFrames(frames)
	if len(out) > 0 {
		return out
	}
	cnt := map[string]int{}
	var seq []string
	for _, f := range frames {
		for _, t := range frameTokens(f) {
			cnt[t]++
			if cnt[t] == 1 {
				seq = append(seq, t)
			}
		}
	}
	for _, t := range expect {
		ti := m.toks[t]
		switch {
		case cnt[t] == 0:
			return []finding{{Sig: "live:broadcast-not-delivered", What: "an authenticated operator did not receive a broadcast event",
				Det: map[string]any{"operator": who, "token": t, "source": ti.Src}}}
		case cnt[t] > 1:
			return []finding{{Sig: "live:broadcast-delivered-twice", What: fmt.Sprintf("an operator received one broadcast event %d times", cnt[t]),
				Det: map[string]any{"operator": who, "token": t, "source": ti.Src}}}
		}
	}
	last := map[string]int{}
	for _, t := range seq {
		ti := m.toks[t]
		if ti == nil {
			continue
		}
		if ti.Seq < last[ti.Src] {
			return []finding{{Sig: "live:per-source-order-broken", What: "events of one source reached an operator out of order",
				Det: map[string]any{"operator": who, "token": t, "source": ti.Src}}}
		}
		last[ti.Src] = ti.Seq
	}
	return nil
}
