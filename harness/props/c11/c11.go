package c11

import (
	"encoding/json"
	"fmt"
	"hash/fnv"
	"math/rand"
	"os"
	"sort"
	"strings"
	"time"

	"Havoc/pkg/verifhook"

	"verifh/lib"
)

func init() { lib.Register("C11", run) }

const (
	cutRecords  = 26 // TLS records of the victim's session whose ends are enumerated
	cutLiveSlot = 24 // extra slots per enumeration round: random cut points in the live phase
)

var cutWhere = []string{"end-1", "end", "end+1", "mid"}

// plan is the tier's scenario list (a function of tier and seed only).
func plan(c *lib.Ctx) []Spec {
	type mix struct{ stall, replay, live, race, cut, cut2, mid int }
	m := mix{1, 8, 5, 6, 20, 6, 10}
	if c.Thorough() {
		m = mix{8, 300, 200, 200, 1292, 150, 300}
	}
	h := fnv.New64a()
	fmt.Fprintf(h, "C11-plan/%d/%s", c.Seed, c.Tier)
	rng := rand.New(rand.NewSource(int64(h.Sum64())))
	var kinds, rest []string
	add := func(dst *[]string, k string, n int) {
		for i := 0; i < n; i++ {
			*dst = append(*dst, k)
		}
	}
	add(&kinds, "stall", m.stall) // first: the longest scenarios start at once, one per shard
	add(&rest, "cut", m.cut)
	add(&rest, "cut2", m.cut2)
	add(&rest, "mid", m.mid)
	add(&rest, "replay", m.replay)
	add(&rest, "race", m.race)
	add(&rest, "live", m.live)
	rng.Shuffle(len(rest), func(i, j int) { rest[i], rest[j] = rest[j], rest[i] })
	kinds = append(kinds, rest...)
	var out []Spec
	cutJ, midJ := 0, 0
	for _, k := range kinds {
		sp := Spec{Kind: k, Seed: rng.Int63()}
		switch k {
		case "replay":
			sp.HistLen = 6 + rng.Intn(15)
		case "live":
			sp.PerSrc = 6 + rng.Intn(7)
		case "race":
			sp.PerSrc = 8 + rng.Intn(9)
		case "mid":
			sp.HistLen = 3 + rng.Intn(8)
			// two removals, one chat, in turn (a draw would leave the quick tier's ten
			// scenarios without enough removals at one seed in a few hundred)
			sp.Where = "remove"
			if rng.Intn(3); midJ%3 == 2 {
				sp.Where = "chat"
			}
			midJ++
		case "cut2":
			// two operators reset together; the first one's cut point: somewhere in its replay
			// or (half of them) after it
			sp.Kind, sp.Second = "cut", true
			if rng.Intn(2) == 0 {
				sp.Where, sp.Extra = "live", rng.Int63n(4000)
			} else {
				sp.Rec, sp.Where = rng.Intn(cutRecords), cutWhere[rng.Intn(len(cutWhere))]
			}
		case "cut":
			slots := 4*cutRecords + cutLiveSlot
			e := (cutJ*37 + int(c.Seed%1000)*11) % slots
			if c.Thorough() {
				e = (cutJ + int(c.Seed%1000)*11) % slots
			}
			cutJ++
			if e < 4*cutRecords {
				sp.Rec, sp.Where = e/4, cutWhere[e%4]
			} else {
				sp.Where, sp.Extra = "live", rng.Int63n(12000)
			}
		}
		out = append(out, sp)
	}
	return out
}

func run(c *lib.Ctx) {
	c.Rule("a scenario = (kind, parameters, what it actually exercised): replay = multiset of history operation kinds before a login at quiescence; live/race = number of concurrent sources and tokens; cut = (TLS record of the victim's session, position relative to its end) plus the stage of the victim's session the cut really hit; stall = amount pumped until the writer blocked. Every scenario drives the real Start()ed teamserver with real wss operators and reference Demons and judges >= 1 complete replay against the retained log and the harness' own token model")
	c.Assume("TCP/TLS/websocket stacks of the Go runtime and gorilla deliver bytes in order (the harness reads frames with them)",
		"the reference Demon encoder (harness/demon) is right about registration/check-in framing",
		"quiescence = every harness-issued operation has been echoed and a barrier chat has come back on every monitor; the teamserver has no spontaneous timers",
		"only SendEvent locks/unlocks Client.Mutex (read from the source): a waiter with no goroutine inside SendEvent past the Lock can never be released",
		"a stalled peer is permanent by construction (the proxy never reads again); a completion bound of 20 s (trigger 10 s) stands for 'never' and is confirmed twice in fresh teamservers")
	e := &engine{c: c, confirmed: map[string]int{}}
	defer func() {
		for k, v := range verifhook.AllHits() {
			if strings.HasPrefix(k, "ws.") || k == "server.ready" {
				c.Observe("hookhits:"+k, v)
			}
		}
		e.dropWorld()
	}()

	if c.Replay != nil {
		var wit struct {
			Spec Spec `json:"spec"`
		}
		if err := json.Unmarshal(c.Replay, &wit); err != nil || wit.Spec.Kind == "" {
			c.Inconclusive("replay witness has no scenario spec")
			return
		}
		c.Cur("scenario", specJSON(wit.Spec))
		c.Eval()
		o := e.runOnce(wit.Spec, confirmBound)
		for _, f := range o.findings {
			c.Violation(f.Sig, f.What, map[string]any{"spec": wit.Spec, "detail": f.Det, "info": o.info})
		}
		for _, s := range o.incon {
			c.Inconclusive(s)
		}
		c.Distinct(wit.Spec.key() + o.class)
		return
	}

	specs := plan(c)
	c.Note("plan_size", len(specs))
	only := os.Getenv("VERIF_C11_ONLY") // development aid: run one kind only
	for i, sp := range specs {
		if !c.Mine(i) || (only != "" && sp.Kind != only) {
			continue
		}
		e.runConfirmed(sp)
		c.Checkpoint()
	}
}

func (e *engine) runOnce(sp Spec, bound time.Duration) (o outcome) {
	pv, stack := lib.Guard(func() {
		switch sp.Kind {
		case "replay":
			o = e.scenReplay(sp)
		case "live":
			o = e.scenLive(sp, false)
		case "race":
			o = e.scenLive(sp, true)
		case "cut":
			o = e.scenCut(sp)
		case "mid":
			o = e.scenMid(sp)
		case "stall":
			o = e.scenStall(sp, bound)
		default:
			o.incon = append(o.incon, "unknown scenario kind "+sp.Kind)
		}
	})
	if len(o.findings) > 0 && e.w != nil {
		e.w.dirty = true // whatever was found must not leak into the next scenario's verdicts
	}
	if pv != nil {
		if e.w != nil {
			e.w.dirty = true
		}
		if strings.Contains(stack, "Havoc/") {
			o.add(finding{Sig: lib.PanicSig(pv, stack), What: fmt.Sprint("panic: ", pv), Det: map[string]any{"stack": brief([]byte(stack))}})
		} else {
			o.incon = append(o.incon, fmt.Sprintf("harness panic: %v\n%s", pv, brief([]byte(stack))))
		}
	}
	return o
}

func sigSet(fs []finding) map[string]finding {
	m := map[string]finding{}
	for _, f := range fs {
		if _, ok := m[f.Sig]; !ok {
			m[f.Sig] = f
		}
	}
	return m
}

// runConfirmed runs a scenario; every candidate is re-run twice in fresh teamservers and
// reported only if it shows both times (DESIGN §2.6), otherwise it is inconclusive.
func (e *engine) runConfirmed(sp Spec) {
	c := e.c
	c.Cur("scenario", specJSON(sp))
	c.Eval()
	bound := confirmBound
	if sp.Kind == "stall" {
		bound = stallTrigger
	}
	t0 := time.Now()
	o := e.runOnce(sp, bound)
	c.Observe("scenarios:"+sp.Kind, 1)
	c.ObserveMax("max:scenario_ms:"+sp.Kind, time.Since(t0).Milliseconds())
	if o.class != "" {
		c.Distinct(sp.key() + "|" + o.class)
	}
	c.SampleSome(7, func() any {
		return map[string]any{"spec": sp, "exercised": o.class, "info": o.info, "candidates": len(o.findings)}
	})
	for _, s := range o.incon {
		c.Inconclusive(sp.Kind + ": " + s)
	}
	if len(o.findings) == 0 {
		return
	}
	cands := sigSet(o.findings)
	var sigs []string
	fresh := false
	for s := range cands {
		sigs = append(sigs, s)
		if e.confirmed[s] < 3 {
			fresh = true
		}
	}
	sort.Strings(sigs)
	if !fresh {
		// this class has been confirmed three times in this worker already
		for _, s := range sigs {
			c.Observe("repeat-of-confirmed:"+s, 1)
		}
		if e.w != nil && e.w.dirty {
			e.dropWorld()
		}
		return
	}
	hits, hits2 := map[string]int{}, map[string]int{}
	var runs [][]string
	// structural(sig): the candidate is a goroutine-dump / lock-state fact (waiters for a
	// mutex nobody is going to release), not a bound that ran out. Whether the schedule
	// that leads there is met again depends on timing, so such a candidate counts as
	// confirmed once it is seen again in one of up to four fresh teamservers; every other
	// candidate must show in both of two.
	structural := func(s string) bool {
		return s == "wedge:send-blocked-on-client-mutex-nobody-holds" || s == "lock:client-mutex-left-locked-after-failed-write" || s == "wedge:event-log-mutex-left-locked"
	}
	need := func() bool {
		for _, s := range sigs {
			if structural(s) && hits[s] == 0 {
				return true
			}
		}
		return false
	}
	for k := 0; k < 2 || (k < 4 && need()); k++ {
		e.dropWorld()
		o2 := e.runOnce(sp, confirmBound)
		var got []string
		for s := range sigSet(o2.findings) {
			hits[s]++
			if k < 2 {
				hits2[s]++
			}
			got = append(got, s)
		}
		sort.Strings(got)
		runs = append(runs, got)
		c.Observe("confirm_runs", 1)
	}
	e.dropWorld()
	for _, s := range sigs {
		f := cands[s]
		if hits2[s] == 2 || (structural(s) && hits[s] >= 1) {
			e.confirmed[s]++
			c.Violation(s, f.What, map[string]any{"spec": sp, "detail": f.Det, "info": o.info, "confirm_runs": runs})
		} else {
			c.Inconclusive(fmt.Sprintf("%s: candidate %s reproduced %d/%d times in fresh teamservers (%s)", sp.Kind, s, hits[s], len(runs), f.What))
		}
	}
}
