package c11

import (
	"encoding/json"
	"errors"
	"fmt"
	"math/rand"
	"net"
	"sort"
	"strings"
	"sync"
	"sync/atomic"
	"time"

	"Havoc/cmd/server"
	"Havoc/pkg/handlers"
	"Havoc/pkg/verifhook"

	"verifh/faultproxy"
	"verifh/lib"
	"verifh/observe"
	"verifh/opclient"
)

// Spec identifies one scenario completely (together with the tree under test).
type Spec struct {
	Kind    string `json:"kind"`             // replay | live | race | cut | stall | mid
	Second  bool   `json:"second,omitempty"` // cut: a second, fully logged-in operator is reset at the same moment
	Seed    int64  `json:"seed"`
	HistLen int    `json:"hist_len,omitempty"`
	PerSrc  int    `json:"per_source,omitempty"`
	// cut: record index of the calibrated quiescent session and where relative to its end
	Rec   int    `json:"rec,omitempty"`
	Where string `json:"where,omitempty"` // end-1 | end | end+1 | mid | live
	Extra int64  `json:"extra,omitempty"` // where=live: bytes past the end of the calibrated session
	// resolved at run time (informational)
	N int64 `json:"n,omitempty"`
}

func (s Spec) key() string {
	return fmt.Sprintf("%s/%d/%s/%d/%d/%d/%v", s.Kind, s.Rec, s.Where, s.Extra/512, s.HistLen, s.PerSrc, s.Second)
}

type outcome struct {
	findings []finding
	incon    []string
	class    string // what the scenario actually exercised (for the distinct-case key)
	wedged   bool
	info     map[string]any
}

func (o *outcome) add(fs ...finding) { o.findings = append(o.findings, fs...) }

type engine struct {
	c         *lib.Ctx
	w         *world
	confirmed map[string]int
	bound     time.Duration // completion bound of a fault phase (trigger)
}

const (
	worldMaxScen   = 30
	confirmBound   = 20 * time.Second
	stallTrigger   = 10 * time.Second
	noProgressIdle = 1500 * time.Millisecond
	pausePerClient = 400 * time.Millisecond
)

func (e *engine) dropWorld() {
	if e.w != nil {
		e.w.close()
		e.w = nil
	}
}

// getWorld returns a healthy world with a base history (>= 20 retained events, two live
// agents with an outstanding request each).
func (e *engine) getWorld(seed int64) (*world, error) {
	if e.w != nil && (e.w.dirty || e.w.scen >= worldMaxScen) {
		e.dropWorld()
	}
	if e.w != nil {
		for _, m := range e.w.mons {
			if m.Closed() {
				e.dropWorld()
				break
			}
		}
	}
	if e.w != nil {
		return e.w, nil
	}
	t0 := time.Now()
	var w *world
	var err error
	for try := 0; try < 3; try++ { // no free port / refused connection on a loaded machine: try again
		if w, err = newWorld(); err == nil {
			break
		}
		var le *lossErr
		if errors.As(err, &le) {
			break
		}
		time.Sleep(500 * time.Millisecond)
	}
	if err != nil {
		return nil, err
	}
	e.c.ObserveMax("max:world_rig_ms", time.Since(t0).Milliseconds())
	defer func() { e.c.ObserveMax("max:world_total_ms", time.Since(t0).Milliseconds()) }()
	rng := rand.New(rand.NewSource(seed ^ 0x5eed))
	if err := w.prelude(rng); err != nil {
		// the base history is made of the same operations as every scenario: if one of them
		// never completes, look at this teamserver's locks and goroutines before giving up
		var o outcome
		syncFailure(&o, err, w)
		w.close()
		if len(o.findings) > 0 {
			f := o.findings[0]
			f.What = "while building the base history: " + f.What
			return nil, &lossErr{f}
		}
		return nil, err
	}
	e.c.Observe("worlds", 1)
	if w.firstRemoved {
		e.c.Observe("worlds-whose-oldest-log-entry-listener-was-removed", 1)
	}
	e.w = w
	return w, nil
}

// prelude: the base history every world starts with, so that every later login meets at
// least one of each: live and dead agents, present / removed / failed listeners (added
// through the API and by an operator), retained and one-shot chats, console output, a
// visitor's arrival and departure; then a few random operations.
func (w *world) prelude(rng *rand.Rand) error {
	var ags []*agentState
	for i := 0; i < 3; i++ {
		a, err := w.opRegister(i % len(w.mons))
		if err != nil {
			return err
		}
		ags = append(ags, a)
	}
	if err := w.opOutput(ags[2], 1); err != nil {
		return err
	}
	if err := w.opMark(1, ags[2], true); err != nil {
		return err
	}
	l1, err := w.opListenerAdd(handlers.AGENT_PIVOT_SMB, false, 0)
	if err != nil {
		return err
	}
	l2, err := w.opListenerAdd(handlers.AGENT_EXTERNAL, false, 0)
	if err != nil {
		return err
	}
	if _, err := w.opListenerAdd(handlers.AGENT_PIVOT_SMB, true, 2); err != nil {
		return err
	}
	removeFirst := rng.Intn(2) == 0
	steps := []func() error{
		func() error {
			// every second world: the listener whose announcement is the oldest entry goes
			if removeFirst && w.first != "" {
				w.firstRemoved = true
				return w.opListenerRemove(w.first, 0)
			}
			return nil
		},
		func() error { return w.opListenerRemove(l2, 1) },
		func() error { return w.opListenerError(l1) },
		func() error { return w.opListenerError(l2) }, // l2 was removed: no announcement of it is in the log
		func() error { return w.opChat(0, false) },
		func() error { return w.opChat(1, true) },
		func() error { return w.opOutput(ags[0], 2) },
		func() error { return w.opVisitor() },
		func() error { return w.opChat(2, false) },
		func() error { return w.opDatedEvent("31/12/2020 23:59:59") },
		func() error { return w.opChat(1, false) },
		func() error { return w.opDatedEvent("01/01/2031 00:00:01") },
	}
	for _, f := range steps {
		if err := f(); err != nil {
			return err
		}
	}
	return w.history(rng, 6, nil)
}

// liveAgents lists agents that can post callbacks.
func (w *world) liveAgents() []*agentState {
	var out []*agentState
	for _, a := range w.ags {
		if !a.Dead && a.ReqID != 0 {
			out = append(out, a)
		}
	}
	return out
}

// syncFailure turns an expired harness-side wait into a wedge candidate or inconclusive.
func syncFailure(o *outcome, err error, w *world) {
	w.dirty = true
	var le *lossErr
	if errors.As(err, &le) {
		o.add(le.f)
		return
	}
	// the retained log's mutex guards a few memory operations only (no I/O inside): if it cannot
	// be taken for three seconds on end it was left locked
	if observe.TryLocked(&w.ts.EventsMutex, 3*time.Second) {
		o.wedged = true
		o.add(finding{Sig: "wedge:event-log-mutex-left-locked",
			What: "recording and replaying events never complete: the mutex of the retained event log stays locked although nothing is done under it any more (" + err.Error() + ")",
			Det:  map[string]any{"busy": busyHavoc(allStacks(), 4)}})
		return
	}
	d := analyseDump(w.ts)
	if len(d.Waiters) > 0 && len(d.Holders) == 0 {
		time.Sleep(300 * time.Millisecond)
		d2 := analyseDump(w.ts)
		if len(d2.Holders) == 0 && sameIDs(d.Waiters, d2.Waiters) {
			o.wedged = true
			o.add(finding{Sig: "wedge:send-blocked-on-client-mutex-nobody-holds",
				What: "a broadcast/send never completes: goroutines wait in SendEvent for a client mutex that no goroutine inside SendEvent holds any more (" + err.Error() + ")",
				Det:  map[string]any{"stacks": d2.trimmed()}})
			return
		}
	}
	if len(d.InWrite) > 0 {
		time.Sleep(time.Second)
		d2 := analyseDump(w.ts)
		if sameIDs(d.InWrite, d2.InWrite) {
			o.wedged = true
			o.add(finding{Sig: "wedge:send-blocked-behind-stuck-write",
				What: "a broadcast/send does not complete: a goroutine sits in WriteMessage holding the client mutex (" + err.Error() + ")",
				Det:  map[string]any{"stacks": d2.trimmed()}})
			return
		}
	}
	busy := busyHavoc(d.Raw, 4)
	o.incon = append(o.incon, fmt.Sprintf("harness wait expired without evidence of a blocked send: %s; busy goroutines in the code under test: %d %s", err.Error(), len(busy), brief([]byte(strings.Join(busy, " || ")))))
}

// afterConcurrency marks what a quiescent login found right after a phase with several
// simultaneous writers of the retained log: on a tree whose log is not synchronised, lost
// or duplicated entries show up here first, as whatever the damaged entry was.
func afterConcurrency(fs []finding) []finding {
	for i := range fs {
		if strings.HasPrefix(fs[i].Sig, "replay:") && !strings.Contains(fs[i].Sig, "concurrent-writers") {
			fs[i].Sig += "(after-concurrent-writers)"
		}
	}
	return fs
}

// worldFailure: the base history could not be built.
func worldFailure(o *outcome, err error) {
	var le *lossErr
	if errors.As(err, &le) {
		o.add(le.f)
		return
	}
	o.incon = append(o.incon, "world: "+err.Error())
}

func sameIDs(a, b []gInfo) bool {
	x, y := ids(a), ids(b)
	if len(x) == 0 || len(x) > len(y) {
		return false
	}
	set := map[string]bool{}
	for _, s := range y {
		set[s] = true
	}
	for _, s := range x {
		if !set[s] {
			return false
		}
	}
	return true
}

// ---------------------------------------------------------------------------------
// (A) replay at quiescence
// ---------------------------------------------------------------------------------

func (e *engine) scenReplay(sp Spec) (o outcome) {
	w, err := e.getWorld(sp.Seed)
	if err != nil {
		worldFailure(&o, err)
		return
	}
	w.scen++
	rng := rand.New(rand.NewSource(sp.Seed))
	counts := map[string]int{}
	if err := w.history(rng, sp.HistLen, counts); err != nil {
		syncFailure(&o, err, w)
		return
	}
	var ks []string
	for k, v := range counts {
		ks = append(ks, fmt.Sprintf("%s=%d", k, v))
		e.c.Observe("op:"+k, int64(v))
	}
	sort.Strings(ks)
	o.class = strings.Join(ks, ",")
	var rc *recConn
	res, fs, err := w.quiescentLoginCheck(func() (*opclient.Client, error) {
		return opclient.Dial(w.addr, func(network, addr string) (net.Conn, error) {
			c, err := net.Dial(network, addr)
			if err != nil {
				return nil, err
			}
			rc = &recConn{Conn: c}
			return rc, nil
		})
	})
	if err != nil {
		syncFailure(&o, err, w)
		return
	}
	o.add(fs...)
	e.c.Observe("replay_frames_compared", int64(len(res.replay)))
	e.c.Observe("quiescent_logins", 1)
	if rc != nil {
		w.calib = rc.recordEnds()
	}
	w.observeQuirks(e.c, res.replay)
	if w.removeFailed > 0 {
		e.c.Observe("quirk:listener-remove-failed-but-announced(not judged)", int64(w.removeFailed))
		w.removeFailed = 0
	}
	if err := w.leave(res); err != nil {
		syncFailure(&o, err, w)
	}
	return
}

// observeQuirks counts behaviour that is visible but not judged (see report).
func (w *world) observeQuirks(c *lib.Ctx, replay []opclient.Frame) {
	for _, f := range replay {
		if f.Head.Event == opclient.EvListener && f.Body.SubEvent == opclient.ListenerAdd {
			if li := w.m.lst[f.InfoStr("Name")]; li != nil && li.Removed && li.ViaOperator {
				if _, st := f.Body.Info["Status"]; st {
					c.Observe("quirk:operator-added-listener-still-announced-after-removal", 1)
				}
			}
		}
	}
}

// ---------------------------------------------------------------------------------
// (B)/(D) live fan-out with concurrent sources; race variant adds racing logins, a
// concurrent listener add/remove and the yield hook.
// ---------------------------------------------------------------------------------

type srcPlan struct {
	name  string
	toks  []string
	oneSh []bool
	run   func() error
}

func (e *engine) scenLive(sp Spec, race bool) (o outcome) {
	w, err := e.getWorld(sp.Seed)
	if err != nil {
		worldFailure(&o, err)
		return
	}
	w.scen++
	rng := rand.New(rand.NewSource(sp.Seed))
	nAgents := 2
	if race {
		nAgents = 4
	}
	for len(w.liveAgents()) < nAgents {
		if _, err := w.opRegister(rng.Intn(len(w.mons))); err != nil {
			syncFailure(&o, err, w)
			return
		}
	}
	if err := w.barrier(); err != nil {
		syncFailure(&o, err, w)
		return
	}
	ags := w.liveAgents()[:nAgents]
	from := make([]int, len(w.mons))
	for i, m := range w.mons {
		from[i] = m.Count()
	}

	w.m.beginConcurrent()
	var plans []*srcPlan
	var expect []string
	taskSeq := w.agSeq + 1
	w.agSeq += 3
	ownTask := map[int]string{} // monitor -> token of the task it sent (it is the excluded client of that echo)
	// operators chatting (pipelined), one of them also tasks an agent
	for i, m := range w.mons {
		m := m
		p := &srcPlan{name: "op:" + m.User}
		// send order first (the model numbers a source's tokens in send order): chats,
		// some of them one-shot, and for one operator (race: two) a task somewhere before
		// the last chat
		taskAt := -1
		var taskAgent *agentState
		if i == 0 || (race && i == 1) {
			taskAt = rng.Intn(sp.PerSrc)
			taskAgent = ags[rng.Intn(len(ags))]
		}
		var taskTok string
		for k := 0; k < sp.PerSrc; k++ {
			if k == taskAt {
				taskTok = w.token()
				w.m.retained(taskTok, p.name)
				p.toks = append(p.toks, taskTok)
				p.oneSh = append(p.oneSh, false)
			}
			t := w.token()
			one := rng.Intn(4) == 0
			if one {
				w.m.oneShot(t, p.name)
			} else {
				w.m.retained(t, p.name)
			}
			p.toks = append(p.toks, t)
			p.oneSh = append(p.oneSh, one)
		}
		taskSeq := taskSeq + uint32(i)
		ownTask[i] = taskTok
		pad := strings.Repeat("p", rng.Intn(600))
		p.run = func() error {
			for k, t := range p.toks {
				var err error
				switch {
				case t == taskTok:
					err = m.Task(taskAgent.Name, "11", fmt.Sprintf("%08X", 0x00B00000+taskSeq), "sleep 7 3 "+t, map[string]any{"Arguments": "7;3"})
				case p.oneSh[k]:
					err = oneShotChat(m, "one-shot "+t+pad)
				default:
					err = m.Chat("chat " + t + pad)
				}
				if err != nil {
					return &syncErr{p.name + " send: " + err.Error()}
				}
			}
			last := p.toks[len(p.toks)-1] // a chat: once echoed, everything before it was handled
			if !waitTok(m, last, syncWait) {
				return &syncErr{p.name + ": last chat " + last + " not echoed"}
			}
			return nil
		}
		plans = append(plans, p)
		expect = append(expect, p.toks...)
	}
	// agents posting callbacks
	for _, a := range ags {
		a := a
		p := &srcPlan{name: "agent:" + a.Name}
		var batches [][]string
		for k := 0; k < sp.PerSrc; {
			n := 1 + rng.Intn(3)
			var b []string
			for j := 0; j < n && k < sp.PerSrc; j, k = j+1, k+1 {
				t := w.token()
				w.m.retained(t, p.name)
				b = append(b, t)
				p.toks = append(p.toks, t)
			}
			batches = append(batches, b)
		}
		p.run = func() error {
			for _, b := range batches {
				if err := w.output(a, b...); err != nil {
					return err
				}
			}
			return nil
		}
		plans = append(plans, p)
		expect = append(expect, p.toks...)
	}
	// one registration in the middle
	newAgent := w.prepareAgent()
	plans = append(plans, &srcPlan{name: "register", run: func() error { return w.sendRegister(newAgent) }})

	// race variant: concurrent listener add+remove by the API (another writer of the
	// retained log) and two newcomers logging in while everything is in flight
	var lsn string
	type racer struct {
		cl   *opclient.Client
		name string
		err  error
	}
	keysBefore := w.clientKeys()
	var racers []*racer
	if race {
		lsn = w.lsnName()
		w.m.listenerAdded(lsn, false)
		w.m.lst[lsn].Removed = true
		plans = append(plans, &srcPlan{name: "listener", run: func() error {
			if err := w.ts.ListenerStart(handlers.LISTENER_PIVOT_SMB, handlers.SMBConfig{Name: lsn, PipeName: "p" + lsn}); err != nil {
				return err
			}
			w.ts.ListenerRemove(lsn)
			return nil
		}})
		for i := 0; i < 2; i++ {
			r := &racer{name: w.newcomerName()}
			racers = append(racers, r)
			delay := time.Duration(rng.Intn(4000)) * time.Microsecond
			// the racer's own one-shot marker: its handler reads it only after the replay, so
			// its echo proves that the replay is over (the barrier alone does not: live
			// frames interleave with a replay in progress)
			mark := w.token()
			w.m.oneShot(mark, "op:"+r.name)
			plans = append(plans, &srcPlan{name: "login:" + r.name, run: func() error {
				time.Sleep(delay)
				cl, err := opclient.Dial(w.addr, nil)
				if err != nil {
					return &syncErr{"racing dial: " + err.Error()}
				}
				r.cl = cl
				ok, err := cl.Login(r.name, "pw-"+r.name, syncWait)
				if err != nil || !ok {
					return &syncErr{fmt.Sprintf("racing login: ok=%v err=%v", ok, err)}
				}
				if err := oneShotChat(cl, "MARK "+mark); err != nil {
					return &syncErr{"racing marker send: " + err.Error()}
				}
				if !waitTok(cl, mark, syncWait) {
					return &syncErr{"racing newcomer's end-of-replay marker not echoed"}
				}
				return nil
			}})
		}
		hookYield.Store(true)
		defer hookYield.Store(false)
		// a racing newcomer's replay starts a little later (sleep at the hook before the
		// replay, outside every lock), so that it overlaps the writers of the log
		var gateN atomic.Int64
		gates := []time.Duration{time.Duration(rng.Intn(3000)) * time.Microsecond, time.Duration(rng.Intn(3000)) * time.Microsecond}
		setReplayGate(func() {
			if k := int(gateN.Add(1)) - 1; k < len(gates) {
				time.Sleep(gates[k])
			}
		})
		defer setReplayGate(nil)
	}
	rng.Shuffle(len(plans), func(i, j int) { plans[i], plans[j] = plans[j], plans[i] })

	hitsBefore := verifhook.Hits("ws.send.locked")
	var wg sync.WaitGroup
	errs := make([]error, len(plans))
	start := make(chan struct{})
	for i, p := range plans {
		wg.Add(1)
		go func(i int, p *srcPlan) {
			defer wg.Done()
			<-start
			// a source may call the teamserver's API directly (listener add/remove): a panic
			// of the code under test must become a finding, not the end of the worker
			if pv, stack := lib.Guard(func() { errs[i] = p.run() }); pv != nil {
				errs[i] = &lossErr{finding{Sig: lib.PanicSig(pv, stack), What: fmt.Sprintf("panic in %s while other writers of the retained log were active: %v", p.name, pv),
					Det: map[string]any{"stack": brief([]byte(stack))}}}
			}
		}(i, p)
	}
	close(start)
	done := make(chan struct{})
	go func() { wg.Wait(); close(done) }()
	select {
	case <-done:
	case <-time.After(2 * syncWait):
		w.m.endConcurrent()
		syncFailure(&o, &syncErr{"concurrent sources did not finish"}, w)
		return
	}
	w.m.endConcurrent()
	for _, err := range errs {
		if err != nil {
			syncFailure(&o, err, w)
			return
		}
	}
	w.commitAgent(newAgent) // the only registration of the phase: its place among the sessions is the last
	if err := w.barrier(); err != nil {
		syncFailure(&o, err, w)
		return
	}
	e.c.Observe("hook:ws.send.locked", verifhook.Hits("ws.send.locked")-hitsBefore)
	// the agents table order is the registration order; concurrent registration happened
	// once, so the model order (append) is right.
	for i, m := range w.mons {
		fr := m.Frames()[from[i]:]
		e.c.Observe("live_frames_checked", int64(len(fr)))
		var exp []string
		for _, t := range expect {
			if t != ownTask[i] {
				exp = append(exp, t)
			}
		}
		fs := w.m.checkLive(fr, exp, m.User)
		o.add(fs...)
		// the sender of a task: is it excluded from its echo? (observed, not judged)
		if ownTask[i] != "" {
			for _, f := range fr {
				if f.Head.Event == opclient.EvSession && f.Body.SubEvent == opclient.SessInput && strings.Contains(string(f.Raw), ownTask[i]) {
					e.c.Observe("quirk:task-echo-delivered-to-its-sender", 1)
				}
			}
		}
	}
	e.c.Observe("live_tokens_expected", int64(len(expect)*len(w.mons)))
	// racing newcomers: no loss (every event recorded so far at least once) and whole frames
	for _, r := range racers {
		if r.cl == nil {
			continue
		}
		for _, tok := range w.m.lastBarrier {
			if !waitTok(r.cl, tok, syncWait) {
				syncFailure(&o, &syncErr{"barrier not delivered to racing newcomer " + r.name}, w)
				return
			}
		}
		fr := r.cl.Frames()
		o.add(wholeFrames(fr)...)
		cnt := map[string]int{}
		for _, f := range fr {
			for _, t := range frameTokens(f) {
				cnt[t]++
			}
		}
		dups := 0
		var names []string
		for t := range w.m.toks {
			names = append(names, t)
		}
		sort.Strings(names)
		for _, t := range names {
			ti := w.m.toks[t]
			if !ti.Retained {
				continue
			}
			if cnt[t] == 0 {
				o.add(finding{Sig: "racing-login:recorded-event-lost", What: "an operator who logged in while events were being broadcast received a recorded event neither in its replay nor live",
					Det: map[string]any{"token": t, "source": ti.Src, "newcomer": r.name}})
				break
			}
			if cnt[t] > 1 {
				dups++
			}
		}
		e.c.Observe("racing_login_duplicates(not judged)", int64(dups))
		e.c.Observe("racing_logins", 1)
	}
	for _, r := range racers {
		if r.cl != nil {
			from0 := w.mons[0].Count()
			r.cl.Close()
			waitPred(w.mons[0], from0, func(f opclient.Frame) bool {
				return f.Head.Event == opclient.EvChat && f.Body.SubEvent == opclient.ChatUserDisc && f.InfoStr("User") == r.name
			})
		}
	}
	if len(racers) > 0 {
		// every connection that did not exist before the phase must have left the table
		for k := range w.clientKeys() {
			if _, old := keysBefore[k]; !old {
				if err := w.waitGone(k); err != nil {
					syncFailure(&o, err, w)
					return
				}
			}
		}
	}
	// afterwards, at quiescence, the retained log is replayed exactly
	res, fs, err := w.quiescentLoginCheck(func() (*opclient.Client, error) { return opclient.Dial(w.addr, nil) })
	if err != nil {
		syncFailure(&o, err, w)
		return
	}
	o.add(afterConcurrency(fs)...)
	e.c.Observe("replay_frames_compared", int64(len(res.replay)))
	e.c.Observe("quiescent_logins", 1)
	if err := w.leave(res); err != nil {
		syncFailure(&o, err, w)
	}
	o.class = fmt.Sprintf("sources=%d,tokens=%d,race=%v", len(plans), len(expect), race)
	return
}

// ---------------------------------------------------------------------------------
// (C) faults
// ---------------------------------------------------------------------------------

// faultTraffic runs concurrent broadcasters and agent requests until stop() and at least
// `after` more messages per source; returns the tokens sent per source, or a wedge.
type traffic struct {
	w        *world
	progress atomic.Int64
	abort    chan struct{}
	abortMu  sync.Once
	verdict  atomic.Pointer[finding]
	sent     map[string][]string
	mu       sync.Mutex
}

func (t *traffic) fail(f finding) {
	t.verdict.CompareAndSwap(nil, &f)
	t.abortMu.Do(func() { close(t.abort) })
}

func (t *traffic) aborted() bool {
	select {
	case <-t.abort:
		return true
	default:
		return false
	}
}

func (t *traffic) waitTok(c *opclient.Client, tok string) bool {
	for !t.aborted() {
		if waitTok(c, tok, 200*time.Millisecond) {
			return true
		}
		if c.Closed() {
			return false
		}
	}
	return false
}

// watch: no progress for a while => look at the goroutines. Deadlock evidence (waiters for
// a client mutex, nobody inside SendEvent past the Lock, stable) ends the phase at once;
// otherwise the phase ends when `bound` passes without progress.
func (t *traffic) watch(bound time.Duration, stop <-chan struct{}) {
	last := t.progress.Load()
	lastChange := time.Now()
	for {
		select {
		case <-stop:
			return
		case <-t.abort:
			return
		case <-time.After(250 * time.Millisecond):
		}
		if p := t.progress.Load(); p != last {
			last, lastChange = p, time.Now()
			continue
		}
		idle := time.Since(lastChange)
		if idle < noProgressIdle {
			continue
		}
		d := analyseDump(t.w.ts)
		if len(d.Waiters) > 0 && len(d.Holders) == 0 {
			time.Sleep(300 * time.Millisecond)
			d2 := analyseDump(t.w.ts)
			if len(d2.Holders) == 0 && sameIDs(d.Waiters, d2.Waiters) && t.progress.Load() == last {
				t.fail(finding{Sig: "wedge:send-blocked-on-client-mutex-nobody-holds",
					What: "after an operator connection was cut, broadcasts / agent requests never complete: goroutines wait for a client's write mutex that no goroutine past the Lock in SendEvent is going to release (left locked after a failed write, or its holder waits for a mutex itself)",
					Det:  map[string]any{"waiters": len(d2.Waiters), "stacks": d2.trimmed()}})
				return
			}
		}
		if idle >= bound {
			if len(d.InWrite) > 0 {
				t.fail(finding{Sig: "wedge:send-blocked-behind-stuck-write",
					What: fmt.Sprintf("broadcasts / agent requests made no progress for %v: a goroutine sits in WriteMessage to a stalled client (no write deadline) holding that client's mutex, the others queue behind it", bound),
					Det:  map[string]any{"waiters": len(d.Waiters), "stacks": d.trimmed()}})
			} else {
				t.fail(finding{Sig: "wedge:unexplained", What: fmt.Sprintf("no progress for %v, no goroutine blocked in SendEvent", bound),
					Det: map[string]any{"busy_goroutines_in_code_under_test": busyHavoc(d.Raw, 8)}})
			}
			return
		}
	}
}

func (t *traffic) record(src, tok string) {
	t.mu.Lock()
	t.sent[src] = append(t.sent[src], tok)
	t.mu.Unlock()
}

// run starts the sources. opIdx: monitors that chat; ags: agents that post; stop: true once
// the fault is in place; minAfter: messages per source after that; capN: messages per
// source at most.
func (w *world) faultTraffic(opIdx []int, ags []*agentState, register bool, stop func() bool, minAfter, capN int, bound time.Duration, pad int) (*traffic, []string) {
	t := &traffic{w: w, abort: make(chan struct{}), sent: map[string][]string{}}
	// tokens are drawn up front (the world's counter is not shared with the sources)
	type src struct {
		name string
		toks []string
		send func(tok string) bool
	}
	var srcs []*src
	padding := strings.Repeat("f", pad)
	for _, i := range opIdx {
		m := w.mons[i]
		s := &src{name: "op:" + m.User}
		s.send = func(tok string) bool {
			if err := m.Chat("chat " + tok + padding); err != nil {
				return false
			}
			return t.waitTok(m, tok)
		}
		srcs = append(srcs, s)
	}
	for _, a := range ags {
		a := a
		s := &src{name: "agent:" + a.Name}
		s.send = func(tok string) bool {
			done := make(chan error, 1)
			go func() { done <- w.output(a, tok) }()
			select {
			case err := <-done:
				return err == nil
			case <-t.abort:
				return false
			}
		}
		srcs = append(srcs, s)
	}
	for _, s := range srcs {
		for k := 0; k < capN; k++ {
			s.toks = append(s.toks, w.token())
		}
	}
	var regDone chan error
	var regAgent *agentState
	if register {
		regDone = make(chan error, 1)
		regAgent = w.prepareAgent()
	}
	stopWatch := make(chan struct{})
	go t.watch(bound, stopWatch)
	var wg sync.WaitGroup
	for _, s := range srcs {
		wg.Add(1)
		go func(s *src) {
			defer wg.Done()
			after := 0
			for _, tok := range s.toks {
				if t.aborted() {
					return
				}
				faultIn := stop()
				if faultIn && after >= minAfter {
					return
				}
				t.record(s.name, tok)
				if !s.send(tok) {
					if !t.aborted() {
						t.fail(finding{Sig: "harness:source-failed", What: s.name + " could not send " + tok})
					}
					return
				}
				t.progress.Add(1)
				if faultIn {
					after++
				}
			}
		}(s)
	}
	if register {
		wg.Add(1)
		go func() {
			defer wg.Done()
			for !stop() && !t.aborted() {
				time.Sleep(time.Millisecond)
			}
			go func() { regDone <- w.sendRegister(regAgent) }()
			select {
			case err := <-regDone:
				if err != nil {
					t.fail(finding{Sig: "harness:source-failed", What: "registration: " + err.Error()})
				}
				t.progress.Add(1)
			case <-t.abort:
			}
		}()
	}
	wg.Wait()
	close(stopWatch)
	if register && t.verdict.Load() == nil {
		w.commitAgent(regAgent)
	}
	// register what was sent with the model (per-source order = send order)
	var expect []string
	w.m.beginConcurrent()
	var names []string
	for n := range t.sent {
		names = append(names, n)
	}
	sort.Strings(names)
	for _, n := range names {
		for _, tok := range t.sent[n] {
			w.m.retained(tok, n)
			expect = append(expect, tok)
		}
	}
	w.m.endConcurrent()
	return t, expect
}

// victim connects through a fault proxy.
type victim struct {
	px   *faultproxy.Proxy
	cl   *opclient.Client
	name string
	sc   *server.Client // the teamserver's record of this connection (nil: never stored)
	id   string
}

func (w *world) dialVictim(px *faultproxy.Proxy) *victim {
	v := &victim{px: px, name: w.newcomerName()}
	before := w.clientKeys()
	cl, err := opclient.Dial(w.addr, func(network, addr string) (net.Conn, error) { return net.Dial("tcp", px.Addr()) })
	if err == nil {
		v.cl = cl
	}
	// the table entry is stored right after the upgrade answer was written
	for i := 0; i < 200; i++ {
		for k, c := range w.clientKeys() {
			if _, old := before[k]; !old {
				v.sc, v.id = c, k
			}
		}
		if v.sc != nil || v.cl == nil {
			break
		}
		time.Sleep(time.Millisecond)
	}
	return v
}

func (e *engine) resolveCut(w *world, sp *Spec) (int64, bool) {
	if len(w.calib) == 0 {
		return 0, false
	}
	end := w.calib[len(w.calib)-1]
	if sp.Where == "live" || sp.Rec >= len(w.calib) {
		sp.Where = "live"
		return end + 64 + sp.Extra, true
	}
	b := w.calib[sp.Rec]
	prev := int64(0)
	if sp.Rec > 0 {
		prev = w.calib[sp.Rec-1]
	}
	switch sp.Where {
	case "end-1":
		return b - 1, true
	case "end":
		return b, true
	case "end+1":
		return b + 1, true
	default:
		return (prev + b) / 2, true
	}
}

// afterFault: common checks once the fault phase is over without a wedge.
func (e *engine) afterFault(o *outcome, w *world, v *victim, from []int, expect []string, judge []int) {
	if err := w.barrier(); err != nil {
		syncFailure(o, err, w)
		return
	}
	for _, i := range judge {
		m := w.mons[i]
		fr := m.Frames()[from[i]:]
		e.c.Observe("live_frames_checked", int64(len(fr)))
		o.add(w.m.checkLive(fr, expect, m.User)...)
	}
	// the victim's write mutex must be free again (only SendEvent locks it)
	if v.sc != nil && observe.TryLocked(&v.sc.Mutex, 2*time.Second) {
		d := analyseDump(w.ts)
		if len(d.Holders) == 0 {
			o.add(lockLeftFinding(v))
		} else {
			o.add(finding{Sig: "lock:client-mutex-held-by-stuck-writer", What: "a client's write mutex is held by a goroutine sitting in WriteMessage",
				Det: map[string]any{"client": v.id, "stacks": d.trimmed()}})
		}
	}
	if held := observe.HeldClientLocks(w.ts, 2*time.Second); len(held) > 0 {
		o.add(finding{Sig: "lock:client-mutex-held-in-table", What: "a client in the table has its write mutex persistently locked", Det: map[string]any{"clients": held}})
	}
	if len(o.findings) > 0 {
		return
	}
	// a later login still gets its replay (and it is exact: we are quiescent)
	res, fs, err := w.quiescentLoginCheck(func() (*opclient.Client, error) { return opclient.Dial(w.addr, nil) })
	if err != nil {
		syncFailure(o, err, w)
		return
	}
	o.add(afterConcurrency(fs)...)
	e.c.Observe("replay_frames_compared", int64(len(res.replay)))
	e.c.Observe("late_logins_after_fault", 1)
	if err := w.leave(res); err != nil {
		syncFailure(o, err, w)
	}
}

func lockLeftFinding(v *victim) finding {
	return finding{Sig: "lock:client-mutex-left-locked-after-failed-write",
		What: "after a write to a cut operator connection failed, that client's write mutex stays locked although no goroutine is inside SendEvent: any later send to this client id blocks forever",
		Det:  map[string]any{"client": v.id}}
}

func (e *engine) scenCut(sp Spec) (o outcome) {
	w, err := e.getWorld(sp.Seed)
	if err != nil {
		worldFailure(&o, err)
		return
	}
	if len(w.calib) == 0 {
		// a quiescent login through a recording connection gives the record boundaries
		c := e.scenReplay(Spec{Kind: "replay", Seed: sp.Seed, HistLen: 0})
		if len(c.findings) > 0 || len(c.incon) > 0 || w.dirty {
			c.class = "calibration"
			return c
		}
	}
	w.scen++
	n, ok := e.resolveCut(w, &sp)
	if !ok {
		o.incon = append(o.incon, "no calibration")
		return
	}
	sp.N = n
	if err := w.barrier(); err != nil {
		syncFailure(&o, err, w)
		return
	}
	from := make([]int, len(w.mons))
	for i, m := range w.mons {
		from[i] = m.Count()
	}
	px, err := faultproxy.New(w.addr)
	if err != nil {
		o.incon = append(o.incon, "proxy: "+err.Error())
		return
	}
	defer px.Close()
	px.CutAfter.Store(n)
	hookPauseNs.Store(int64(pausePerClient))
	defer hookPauseNs.Store(0)
	pauses0 := hookPauses.Load()

	// second casualty (Spec.Second): another operator, fully logged in, whose connection is
	// reset at the same moment, so that the broadcast which meets the first dead client also
	// meets a second one (failure handling of one client running into another's)
	var v2 *victim
	if sp.Second {
		px2, err := faultproxy.New(w.addr)
		if err != nil {
			o.incon = append(o.incon, "proxy: "+err.Error())
			return
		}
		defer px2.Close()
		v2 = w.dialVictim(px2)
		if v2.cl == nil {
			o.incon = append(o.incon, "second victim could not connect")
			return
		}
		if ok, err := v2.cl.Login(v2.name, "pw-"+v2.name, syncWait); err != nil || !ok {
			syncFailure(&o, &syncErr{fmt.Sprintf("second victim login: ok=%v err=%v", ok, err)}, w)
			return
		}
		tok2 := fmt.Sprintf("v2mark%dz", n)
		oneShotChat(v2.cl, "MARK "+tok2)
		if _, ok := v2.cl.WaitFor(func(f opclient.Frame) bool { return strings.Contains(string(f.Raw), tok2) }, syncWait); !ok {
			syncFailure(&o, &syncErr{"second victim's end-of-replay marker not echoed"}, w)
			return
		}
	}

	v := w.dialVictim(px)
	replayDone := make(chan struct{})
	go func() {
		defer close(replayDone)
		if v.cl == nil {
			return
		}
		ok, err := v.cl.Login(v.name, "pw-"+v.name, syncWait)
		if err != nil || !ok {
			return
		}
		tok := fmt.Sprintf("vmark%dz", n)
		oneShotChat(v.cl, "MARK "+tok)
		v.cl.WaitFor(func(f opclient.Frame) bool { return strings.Contains(string(f.Raw), tok) }, syncWait)
	}()
	// traffic starts when the victim's quiescent prefix is over: cut reached, or replay done
	deadline := time.Now().Add(syncWait)
wait:
	for !px.WasCut() && time.Now().Before(deadline) {
		select {
		case <-replayDone:
			break wait
		default:
			time.Sleep(500 * time.Microsecond)
		}
	}
	stage := "live"
	if px.WasCut() {
		switch {
		case v.cl == nil:
			stage = "handshake-or-upgrade"
		case v.cl.Count() == 0:
			stage = "before-verdict"
		default:
			stage = fmt.Sprintf("replay-frame-%02d", min(v.cl.Count(), 40))
		}
	}
	ags := w.liveAgents()
	if len(ags) > 2 {
		ags = ags[:2]
	}
	if v2 != nil {
		if !px.WasCut() {
			px.CutNow()
			stage = "live-cutnow"
		}
		v2.px.CutNow()
		e.c.Observe("two_operators_cut_together", 1)
	}
	tr, expect := w.faultTraffic([]int{0, 1}, ags, true, px.WasCut, 4, 40, confirmBound, 300)
	if !px.WasCut() {
		px.CutNow()
		stage = "live-cutnow"
	}
	o.class = fmt.Sprintf("cut:%s:%s", sp.Where, stage)
	if v2 != nil {
		o.class += ":second"
	}
	e.c.Observe("cut_stage:"+stage, 1)
	e.c.Observe("hook_pauses_below_RemoveClient", hookPauses.Load()-pauses0)
	o.info = map[string]any{"n": n, "stage": stage, "down": px.Down.Load(), "victim_frames": func() int {
		if v.cl != nil {
			return v.cl.Count()
		}
		return 0
	}()}
	if f := tr.verdict.Load(); f != nil {
		w.dirty = true
		if strings.HasPrefix(f.Sig, "wedge:") {
			o.wedged = true
			o.add(*f)
			// the state half of the same defect
			if v.sc != nil && observe.TryLocked(&v.sc.Mutex, 500*time.Millisecond) && len(analyseDump(w.ts).Holders) == 0 {
				o.add(lockLeftFinding(v))
			}
		} else {
			o.incon = append(o.incon, f.Sig+": "+f.What)
		}
		return
	}
	hookPauseNs.Store(0)
	// the victim's removal (its handler's own broadcast, then the Delete) must be over
	// before the teamserver counts as quiescent again
	if err := w.waitGone(v.id); err != nil {
		syncFailure(&o, err, w)
		return
	}
	if v2 != nil {
		if err := w.waitGone(v2.id); err != nil {
			syncFailure(&o, err, w)
			return
		}
		if v2.sc != nil && observe.TryLocked(&v2.sc.Mutex, 2*time.Second) && len(analyseDump(w.ts).Holders) == 0 {
			o.add(lockLeftFinding(v2))
		}
	}
	e.afterFault(&o, w, v, from, expect, []int{0, 1, 2})
	return
}

func (e *engine) scenStall(sp Spec, bound time.Duration) (o outcome) {
	w, err := e.getWorld(sp.Seed)
	if err != nil {
		worldFailure(&o, err)
		return
	}
	w.scen = worldMaxScen // big frames pile up in the monitors: retire this world afterwards
	if err := w.barrier(); err != nil {
		syncFailure(&o, err, w)
		return
	}
	px, err := faultproxy.New(w.addr)
	if err != nil {
		o.incon = append(o.incon, "proxy: "+err.Error())
		return
	}
	defer px.Close()
	v := w.dialVictim(px)
	if v.cl == nil || v.sc == nil {
		o.incon = append(o.incon, "victim could not connect through the proxy")
		return
	}
	if _, err := w.loginAndMark(v.cl, v.name); err != nil {
		syncFailure(&o, err, w)
		return
	}
	if err := w.barrier(); err != nil {
		syncFailure(&o, err, w)
		return
	}
	px.Stall.Store(true)
	// pump: big one-shot chats from monitor 0 (pipelined) until the teamserver's writer to
	// the stalled victim is stuck: the same goroutine inside WriteMessage on two looks, the
	// victim's mutex held in between, no byte forwarded by the proxy.
	big := strings.Repeat("S", 512<<10)
	m0 := w.mons[0]
	const pumpMax = 96
	var ptoks []string
	for i := 0; i < pumpMax; i++ {
		t := w.token()
		w.m.oneShot(t, "op:"+m0.User)
		ptoks = append(ptoks, t)
	}
	var pumped atomic.Int64
	var stopPump atomic.Bool
	pumpEnd := make(chan struct{})
	go func() {
		defer close(pumpEnd)
		for i, t := range ptoks {
			// at most two chats ahead of the last echo, so that little is queued behind
			// the blocked write once the stall bites
			for i >= 2 && !stopPump.Load() && !waitTok(m0, ptoks[i-2], 200*time.Millisecond) {
				if m0.Closed() {
					return
				}
			}
			if stopPump.Load() {
				return
			}
			if err := oneShotChat(m0, "PUMP "+t+" "+big); err != nil {
				return
			}
			pumped.Add(1)
		}
	}()
	stuck := false
	var prev []gInfo
	prevDown := int64(-1)
	deadline := time.Now().Add(90 * time.Second)
	for time.Now().Before(deadline) {
		time.Sleep(400 * time.Millisecond)
		if n := pumped.Load(); n == pumpMax && waitTok(m0, ptoks[pumpMax-1], time.Millisecond) {
			break // everything went through
		}
		locked := observe.TryLocked(&v.sc.Mutex, 300*time.Millisecond)
		d := analyseDump(w.ts)
		down := px.Down.Load()
		if locked && len(d.InWrite) > 0 && sameIDs(d.InWrite, prev) && down == prevDown {
			stuck = true
			break
		}
		prev, prevDown = d.InWrite, down
	}
	stopPump.Store(true)
	e.c.Observe("stall_pumped_KiB", pumped.Load()*512)
	o.class = fmt.Sprintf("stall:pumpedMiB=%d,stuck=%v", pumped.Load()/2, stuck)
	if !stuck {
		o.incon = append(o.incon, fmt.Sprintf("the stalled connection swallowed %d MiB without blocking its writer", pumped.Load()/2))
		px.CutNow()
		w.dirty = true
		return
	}
	e.c.Observe("stall_writer_blocked", 1)
	from := make([]int, len(w.mons))
	for i, m := range w.mons {
		from[i] = m.Count()
	}
	ags := w.liveAgents()
	if len(ags) > 2 {
		ags = ags[:2]
	}
	always := func() bool { return true }
	tr, expect := w.faultTraffic([]int{1}, ags, true, always, 5, 5, bound, 100)
	if f := tr.verdict.Load(); f != nil {
		w.dirty = true
		if strings.HasPrefix(f.Sig, "wedge:") {
			o.wedged = true
			o.add(*f)
		} else {
			o.incon = append(o.incon, f.Sig+": "+f.What)
		}
		px.CutNow()
		return
	}
	// monitor 0's handler must get through its queue as well (later sends complete)
	select {
	case <-pumpEnd:
	case <-time.After(3 * syncWait):
		syncFailure(&o, &syncErr{"the pumping operator's own send never returned"}, w)
		px.CutNow()
		return
	}
	last := ptoks[pumped.Load()-1]
	if !waitTok(m0, last, 3*syncWait) {
		syncFailure(&o, &syncErr{"the operator whose broadcast hit the stalled client never got its later messages handled"}, w)
		px.CutNow()
		return
	}
	e.afterFault(&o, w, v, from, expect, []int{1, 2})
	px.CutNow()
	return
}

func specJSON(sp Spec) []byte {
	b, _ := json.Marshal(sp)
	return b
}
