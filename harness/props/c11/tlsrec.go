package c11

import (
	"net"
	"sync"
)

// recConn records, on the client side, the cumulative offset (in TCP payload bytes
// received from the server) at which every TLS record ends. The teamserver writes one
// websocket message per WriteMessage, i.e. one TLS record for every package below 4 KiB,
// so record ends are the package boundaries of the byte stream a fault proxy can cut.
type recConn struct {
	net.Conn
	mu    sync.Mutex
	total int64
	ends  []int64
	hdr   []byte
	need  int64 // payload bytes still missing of the current record
}

func (r *recConn) Read(p []byte) (int, error) {
	n, err := r.Conn.Read(p)
	if n > 0 {
		r.feed(p[:n])
	}
	return n, err
}

func (r *recConn) feed(b []byte) {
	r.mu.Lock()
	defer r.mu.Unlock()
	for len(b) > 0 {
		if r.need > 0 {
			k := int64(len(b))
			if k > r.need {
				k = r.need
			}
			r.need -= k
			r.total += k
			b = b[k:]
			if r.need == 0 {
				r.ends = append(r.ends, r.total)
			}
			continue
		}
		k := 5 - len(r.hdr)
		if k > len(b) {
			k = len(b)
		}
		r.hdr = append(r.hdr, b[:k]...)
		r.total += int64(k)
		b = b[k:]
		if len(r.hdr) == 5 {
			r.need = int64(r.hdr[3])<<8 | int64(r.hdr[4])
			r.hdr = r.hdr[:0]
			if r.need == 0 {
				r.ends = append(r.ends, r.total)
			}
		}
	}
}

func (r *recConn) recordEnds() []int64 {
	r.mu.Lock()
	defer r.mu.Unlock()
	return append([]int64(nil), r.ends...)
}
