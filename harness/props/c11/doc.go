// Package c11 holds the workload and monitor for property C11 (see /verif/DESIGN.md §3).
package c11
