package c11

import (
	"fmt"
	"regexp"
	"runtime"
	"sort"
	"strings"

	"Havoc/cmd/server"
)

// ---------------------------------------------------------------------------------
// Goroutine dump analysis for wedge candidates (DESIGN §2.6): who waits for a client's
// write mutex inside SendEvent, and who is inside SendEvent past the Lock (the only place
// that unlocks it).
// ---------------------------------------------------------------------------------

type gInfo struct {
	ID    string
	State string
	Text  string
}

type dumpInfo struct {
	Waiters []gInfo // in SendEvent / EventBroadcast, blocked in sync.(*Mutex).Lock of a client
	Holders []gInfo // in SendEvent, not blocked at the Lock (writing, or paused at the hook)
	InWrite []gInfo // subset of Holders that is inside WriteMessage
	Raw     string
}

var reGHead = regexp.MustCompile(`^goroutine (\d+) \[([^\]]*)\]:`)

func allStacks() string {
	buf := make([]byte, 1<<20)
	for {
		n := runtime.Stack(buf, true)
		if n < len(buf) {
			return string(buf[:n])
		}
		buf = make([]byte, 2*len(buf))
	}
}

// analyseDump looks only at goroutines working for the given teamserver (earlier worlds of
// this process may have left blocked goroutines behind; they are not this scenario's).
func analyseDump(ts *server.Teamserver) dumpInfo {
	raw := allStacks()
	var d dumpInfo
	d.Raw = raw
	mine := fmt.Sprintf("Havoc/cmd/server.(*Teamserver).SendEvent(%p", ts)
	mineB := fmt.Sprintf("Havoc/cmd/server.(*Teamserver).EventBroadcast(%p", ts)
	for _, blk := range strings.Split(raw, "\n\n") {
		m := reGHead.FindStringSubmatch(blk)
		if m == nil {
			continue
		}
		inSend := strings.Contains(blk, mine)
		if !inSend && !strings.Contains(blk, mineB) {
			continue
		}
		g := gInfo{ID: m[1], State: m[2], Text: blk}
		lines := strings.Split(blk, "\n")
		// innermost frame of the code under test: is it one of the two places that lock a
		// client's write mutex (SendEvent; EventBroadcast's look at Authenticated), with the
		// mutex right above it? (A goroutine that holds one client's mutex further down its
		// stack and waits for another's here is a waiter: it cannot release anything.)
		atLock := false
		for i, ln := range lines {
			if strings.HasPrefix(ln, "Havoc/") {
				if (strings.HasPrefix(ln, "Havoc/cmd/server.(*Teamserver).SendEvent(") || strings.HasPrefix(ln, "Havoc/cmd/server.(*Teamserver).EventBroadcast.func1(")) &&
					i >= 2 && strings.HasPrefix(lines[i-2], "sync.(*Mutex).Lock(") {
					atLock = true
				}
				break
			}
		}
		if !atLock && !inSend {
			continue // broadcasting, but neither waiting for nor holding a client mutex
		}
		if atLock {
			d.Waiters = append(d.Waiters, g)
		} else {
			d.Holders = append(d.Holders, g)
			if strings.Contains(blk, "websocket.(*Conn).WriteMessage(") {
				d.InWrite = append(d.InWrite, g)
			}
		}
	}
	return d
}

func ids(gs []gInfo) []string {
	var out []string
	for _, g := range gs {
		out = append(out, g.ID)
	}
	sort.Strings(out)
	return out
}

// trimmed returns the stacks that matter for a witness (bounded size).
func (d dumpInfo) trimmed() []string {
	var out []string
	add := func(gs []gInfo, n int) {
		for i, g := range gs {
			if i >= n {
				break
			}
			t := g.Text
			if len(t) > 2500 {
				t = t[:2500] + "…"
			}
			out = append(out, t)
		}
	}
	add(d.Holders, 2)
	add(d.Waiters, 3)
	return out
}

// busyHavoc returns the stacks of goroutines that are inside the code under test and not
// parked in one of its idle places (waiting for the next websocket message, accepting
// connections): diagnosis material for a stall that SendEvent does not explain.
func busyHavoc(raw string, max int) []string {
	var out []string
	for _, blk := range strings.Split(raw, "\n\n") {
		if !strings.Contains(blk, "Havoc/") {
			continue
		}
		if strings.Contains(blk, "websocket.(*Conn).ReadMessage(") || strings.Contains(blk, ".Accept(") ||
			strings.Contains(blk, "(*Teamserver).Start(") && strings.Contains(blk, "chan receive") {
			continue
		}
		if len(blk) > 2000 {
			blk = blk[:2000] + "…"
		}
		out = append(out, blk)
		if len(out) >= max {
			break
		}
	}
	return out
}
