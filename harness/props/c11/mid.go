package c11

import (
	"encoding/json"
	"fmt"
	"math/rand"
	"reflect"
	"strings"
	"sync/atomic"
	"time"

	"Havoc/pkg/handlers"

	"verifh/opclient"
)

// ---------------------------------------------------------------------------------
// (E) a change of the retained log in the middle of a newcomer's replay, placed exactly:
// at the k-th replay frame (hook ws.send.locked, the newcomer's write lock held, as any
// concurrent broadcaster would find it) another operator removes a listener that was
// recorded earlier, or chats. The log at the start of the replay is read at the hook
// ws.before_replay. Judged: every entry of that log, except the events of the listener
// being removed, reaches the newcomer between verdict and end-of-replay marker, in the
// recorded order (extra frames - the live echo of the change - are allowed anywhere).
// ---------------------------------------------------------------------------------

var hookMid atomic.Pointer[func()]

func listenerOf(b []byte) string {
	var p struct {
		Head struct{ Event int }
		Body struct{ Info map[string]any }
	}
	if json.Unmarshal(b, &p) != nil || p.Head.Event != opclient.EvListener {
		return ""
	}
	s, _ := p.Body.Info["Name"].(string)
	return s
}

func (e *engine) scenMid(sp Spec) (o outcome) {
	w, err := e.getWorld(sp.Seed)
	if err != nil {
		worldFailure(&o, err)
		return
	}
	w.scen++
	rng := rand.New(rand.NewSource(sp.Seed))
	mut := "chat"
	var lsn string
	if sp.Where != "chat" {
		mut = "remove"
		k := handlers.AGENT_PIVOT_SMB
		if rng.Intn(2) == 0 {
			k = handlers.AGENT_EXTERNAL
		}
		if lsn, err = w.opListenerAdd(k, false, 0); err != nil {
			syncFailure(&o, err, w)
			return
		}
	}
	// later entries: chats and callbacks only (they stay in the log)
	for i := 0; i < sp.HistLen; i++ {
		if ags := w.liveAgents(); len(ags) > 0 && rng.Intn(3) == 0 {
			err = w.opOutput(ags[rng.Intn(len(ags))], 1+rng.Intn(2))
		} else {
			err = w.opChat(rng.Intn(len(w.mons)), false)
		}
		if err != nil {
			syncFailure(&o, err, w)
			return
		}
	}
	if err := w.barrier(); err != nil {
		syncFailure(&o, err, w)
		return
	}

	by := w.mons[0]
	tok := w.token()
	var (
		sGate   [][]byte
		at      int64 // replay frame (1-based) at which the change is made
		armed   atomic.Bool
		nHit    atomic.Int64
		reached atomic.Bool
		sendErr atomic.Value
	)
	readLog := func() [][]byte {
		w.ts.EventsMutex.Lock()
		defer w.ts.EventsMutex.Unlock()
		return snapshotLog(w.ts.EventsList)
	}
	changed := func(now [][]byte) bool {
		if len(now) != len(sGate) {
			return true
		}
		for i := range now {
			if string(now[i]) != string(sGate[i]) {
				return true
			}
		}
		return false
	}
	setReplayGate(func() {
		sGate = readLog()
		p := 0
		if mut == "remove" {
			for i, b := range sGate {
				if listenerOf(b) == lsn {
					p = i + 1
					break
				}
			}
		}
		// strictly after the listener's own entry has been replayed, at least one entry left
		lo, hi := int64(p+1), int64(len(sGate)-1)
		if hi < lo {
			hi = lo
		}
		at = lo + rng.Int63n(hi-lo+1)
		armed.Store(true)
	})
	defer setReplayGate(nil)
	fn := func() {
		if !armed.Load() || nHit.Add(1) != at {
			return
		}
		var err error
		if mut == "remove" {
			err = by.ListenerRemove(lsn)
		} else {
			err = by.Chat("chat " + tok)
		}
		if err != nil {
			sendErr.Store(err.Error())
			return
		}
		// the other operator's handler changes the log and then queues behind this very
		// write lock; wait (bounded, no verdict depends on it) until the log has changed
		for i := 0; i < 10000; i++ {
			if changed(readLog()) {
				reached.Store(true)
				return
			}
			time.Sleep(200 * time.Microsecond)
		}
	}
	if mut == "chat" {
		w.m.retained(tok, "op:"+by.User)
	}
	hookMid.Store(&fn)
	defer hookMid.Store(nil)

	keys0 := w.clientKeys()
	fromBy := by.Count()
	cl, err := opclient.Dial(w.addr, nil)
	if err != nil {
		syncFailure(&o, &syncErr{"newcomer dial: " + err.Error()}, w)
		return
	}
	name := w.newcomerName()
	res, err := w.loginAndMark(cl, name)
	hookMid.Store(nil)
	setReplayGate(nil)
	if err != nil {
		cl.Close()
		syncFailure(&o, err, w)
		return
	}
	res.id = newKey(keys0, w.clientKeys())
	if s, _ := sendErr.Load().(string); s != "" {
		syncFailure(&o, &syncErr{"mid-replay change could not be sent: " + s}, w)
		return
	}
	if !armed.Load() || nHit.Load() < at {
		o.incon = append(o.incon, fmt.Sprintf("mid: the replay had %d frames, the change was planned at frame %d", nHit.Load(), at))
		w.dirty = true
		return
	}
	// the change's own echo, then quiescence
	if mut == "remove" {
		w.m.lst[lsn].Removed = true
		if !waitPred(by, fromBy, func(f opclient.Frame) bool {
			return f.Head.Event == opclient.EvListener && f.Body.SubEvent == opclient.ListenerRemove && f.InfoStr("Name") == lsn
		}) {
			syncFailure(&o, &syncErr{"Listener/Remove " + lsn + " not broadcast"}, w)
			return
		}
		if w.ts.ListenerExist(lsn) {
			w.m.lst[lsn].ViaOperator = true // removal gave up (database busy): not judged, see opListenerRemove
			w.removeFailed++
		}
	} else if !waitTok(by, tok, syncWait) {
		syncFailure(&o, &syncErr{"mid-replay chat not echoed"}, w)
		return
	}
	if err := w.barrier(); err != nil {
		syncFailure(&o, err, w)
		return
	}
	e.c.Observe("mid_replay_changes:"+mut, 1)
	if reached.Load() {
		e.c.Observe("mid_replay_log_changed_while_replay_frame_pending", 1)
	}
	o.class = fmt.Sprintf("mid:%s:at=%d/%d:reached=%v", mut, at, len(sGate), reached.Load())
	o.info = map[string]any{"change": mut, "at_frame": at, "log_at_login": len(sGate), "listener": lsn, "log_changed_in_time": reached.Load()}

	o.add(wholeFrames(res.replay)...)
	// subsequence check
	var want [][]byte
	for _, b := range sGate {
		if mut == "remove" && listenerOf(b) == lsn {
			continue
		}
		want = append(want, b)
	}
	j := 0
	for _, f := range res.replay {
		if j >= len(want) {
			break
		}
		a, _ := canon(f.Raw)
		b, _ := canon(want[j])
		if reflect.DeepEqual(a, b) {
			j++
		}
	}
	e.c.Observe("replay_frames_compared", int64(len(res.replay)))
	if j < len(want) {
		// lost altogether, or only out of place?
		sig := "mid-replay:retained-event-lost:" + mut
		what := "an event that was in the retained log when the replay began never reached the newcomer: the log was changed (" + mut + ") while the replay was in progress"
		miss, _ := canon(want[j])
		for _, f := range res.replay {
			if a, _ := canon(f.Raw); reflect.DeepEqual(a, miss) {
				sig = "mid-replay:retained-events-out-of-order:" + mut
				what = "the newcomer received the retained events in another order than they were recorded: the log was changed (" + mut + ") while the replay was in progress"
				break
			}
		}
		var got []string
		for _, f := range res.replay {
			got = append(got, brief(f.Raw))
		}
		if len(got) > 60 {
			got = got[:60]
		}
		o.add(finding{Sig: sig, What: what, Det: map[string]any{"first_missing_index": j, "first_missing": brief(want[j]), "change_at_replay_frame": at,
			"log_at_login": len(sGate), "received": strings.Join(got, "\n")}})
	}
	if len(o.findings) > 0 {
		cl.Close()
		w.dirty = true
		return
	}
	if err := w.leave(res); err != nil {
		syncFailure(&o, err, w)
		return
	}
	// afterwards the log replays exactly again
	res2, fs, err := w.quiescentLoginCheck(func() (*opclient.Client, error) { return opclient.Dial(w.addr, nil) })
	if err != nil {
		syncFailure(&o, err, w)
		return
	}
	o.add(afterConcurrency(fs)...)
	e.c.Observe("quiescent_logins", 1)
	if err := w.leave(res2); err != nil {
		syncFailure(&o, err, w)
	}
	return
}
