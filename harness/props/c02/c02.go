// Package c02: "An operator's task reaches the agent exactly as issued".
//
// Real path: Session/Input package -> DispatchEvent -> TaskPrepare -> queue -> check-in
// through the listener -> reference Demon decoder (demon.ParseTasks / demon.Rd, written from
// Parser.c and Command.c). Expected argument lists come from the table in rows.go (what
// the Demon's handler reads, in which order, as which type), not from TaskPrepare.
package c02

import (
	"bytes"
	"encoding/binary"
	"encoding/json"
	"fmt"
	"math/rand"
	"strings"

	"Havoc/pkg/handlers"

	"verifh/demon"
	"verifh/lib"
	"verifh/rig"
)

func init() { lib.Register("C02", run) }

// X is one expected argument as the Demon reads it.
type X struct {
	K string `json:"k"` // i32 i64 W S B file any-W
	U uint64 `json:"u,omitempty"`
	S string `json:"s,omitempty"`
	B []byte `json:"b,omitempty"`
	F int    `json:"f,omitempty"` // K == "file": index into Files
}

type taskSpec struct {
	Row    string         `json:"row"`
	Cmd    uint32         `json:"cmd"`
	Info   map[string]any `json:"info"`
	Exp    []X            `json:"exp"`
	Files  [][]byte       `json:"files,omitempty"`
	TaskID string         `json:"task_id"`
	// WideLast: the encoder may write the last integer 8 bytes wide; the Demon reads 4
	WideLast bool `json:"wide_last,omitempty"`
}

type batch struct {
	Key   []byte     `json:"key"`
	IV    []byte     `json:"iv"`
	Agent uint32     `json:"agent"`
	Tasks []taskSpec `json:"tasks"`
	// Prior: session keys of other agents that were tasked in this process before this one
	// (keys related to Key: same first half, same but for the last byte, ...). Whatever the
	// teamserver keeps per key must be kept per whole key.
	Prior [][]byte `json:"prior_keys,omitempty"`
}

func le32(v uint32) []byte { b := make([]byte, 4); binary.LittleEndian.PutUint32(b, v); return b }

// encodeExp renders the expected argument list as the byte string the Demon's reader
// consumes (fileIDs resolves "file" references).
func encodeExp(exp []X, fileIDs []uint32) []byte {
	var out []byte
	for _, x := range exp {
		switch x.K {
		case "i32":
			out = append(out, le32(uint32(x.U))...)
		case "i64":
			b := make([]byte, 8)
			binary.LittleEndian.PutUint64(b, x.U)
			out = append(out, b...)
		case "W":
			w := append(demon.UTF16LE(strings.TrimSuffix(x.S, "\x00")), 0, 0)
			out = append(out, le32(uint32(len(w)))...)
			out = append(out, w...)
		case "S":
			s := append([]byte(strings.TrimSuffix(x.S, "\x00")), 0)
			out = append(out, le32(uint32(len(s)))...)
			out = append(out, s...)
		case "B":
			out = append(out, le32(uint32(len(x.B)))...)
			out = append(out, x.B...)
		case "file":
			out = append(out, le32(fileIDs[x.F])...)
		}
	}
	return out
}

type world struct {
	r   *rig.Rig
	h   *handlers.HTTP
	sim *rig.Sim
}

func newWorld(c *lib.Ctx, key, iv []byte, id uint32) (*world, error) {
	r, err := rig.New(rig.Options{})
	if err != nil {
		return nil, err
	}
	h, err := r.StartHTTP(handlers.HTTPConfig{Name: "c02"})
	if err != nil {
		return nil, err
	}
	w := &world{r: r, h: h, sim: rig.NewSim(c.Rng, id)}
	if key != nil {
		w.sim.Key, w.sim.IV = key, iv
	}
	if resp := w.sim.Register(h.GinEngine); resp.Status != 200 {
		return nil, fmt.Errorf("registration failed: %d", resp.Status)
	}
	return w, nil
}

// canary strings that must never appear in the raw response of an agent with a real key
func canaries(b batch) [][]byte {
	var cs [][]byte
	for _, t := range b.Tasks {
		for _, x := range t.Exp {
			switch x.K {
			case "W":
				if len(x.S) >= 8 {
					cs = append(cs, demon.UTF16LE(x.S))
				}
			case "S":
				if len(x.S) >= 8 {
					cs = append(cs, []byte(x.S))
				}
			case "B":
				if len(x.B) >= 16 {
					cs = append(cs, x.B[:16])
				}
			}
		}
	}
	return cs
}

func runBatch(c *lib.Ctx, w *world, b batch) (sig, what string) {
	var pv any
	var stack string
	for i := range b.Tasks {
		t := &b.Tasks[i]
		info := map[string]any{"DemonID": w.sim.Hex(), "CommandID": fmt.Sprint(t.Cmd), "TaskID": t.TaskID, "CommandLine": "cmdline " + t.Row}
		for k, v := range t.Info {
			info[k] = v
		}
		pv, stack = lib.Guard(func() { rig.TaskRaw(w.r.TS, info) })
		if pv != nil {
			return lib.PanicSig(pv, stack), fmt.Sprintf("operator package %s panics: %v", t.Row, pv)
		}
	}
	// collect the whole queue (large files come one chunk per check-in)
	var got []demon.Task
	var raw [][]byte
	for round := 0; round < 64; round++ {
		resp, tasks, ok := w.sim.Checkin(w.h.GinEngine)
		if resp.Panic != nil {
			return lib.PanicSig(resp.Panic, resp.Stack), fmt.Sprintf("check-in panics: %v", resp.Panic)
		}
		if !ok {
			return "response:not-a-task-stream", fmt.Sprintf("check-in response (status %d, %d bytes) is not a sequence of [cmd][request id][size][body] frames", resp.Status, len(resp.Body))
		}
		if len(tasks) == 1 && tasks[0].Cmd == demon.CmdNoJob {
			break
		}
		got = append(got, tasks...)
		raw = append(raw, resp.Body)
	}
	// clear text?
	if !allZero(w.sim.Key) {
		for _, cn := range canaries(b) {
			for _, r := range raw {
				if bytes.Contains(r, cn) {
					return "cleartext:parameter-visible-in-response", fmt.Sprintf("the response contains %d bytes of a task parameter in clear although the agent registered a non-zero key", len(cn))
				}
			}
		}
	}
	// walk the stream: per operator task, first its MEM_FILE runs, then the command
	pos := 0
	for ti, t := range b.Tasks {
		reqID, _ := parseHex(t.TaskID)
		fileIDs := make([]uint32, len(t.Files))
		for fi, f := range t.Files {
			var data []byte
			first := true
			for {
				if pos >= len(got) || got[pos].Cmd != demon.CmdMemFile {
					break
				}
				rd := demon.Rd{B: got[pos].Body}
				id := rd.I32()
				total := rd.I64()
				chunk := rd.Bytes()
				if rd.Err || len(rd.B) != 0 {
					return "memfile:layout:" + t.Row, fmt.Sprintf("task %d (%s): MEM_FILE body does not read as [id][i64 size][bytes]", ti, t.Row)
				}
				if first {
					fileIDs[fi] = id
					first = false
				} else if id != fileIDs[fi] {
					break // next file's run
				}
				if total != uint64(len(f)) {
					return "memfile:total-size:" + t.Row, fmt.Sprintf("task %d (%s): chunk announces %d bytes, file %d has %d", ti, t.Row, total, fi, len(f))
				}
				data = append(data, chunk...)
				pos++
				if len(data) >= len(f) {
					break
				}
			}
			if first {
				return "memfile:missing:" + t.Row, fmt.Sprintf("task %d (%s): no MEM_FILE chunks for file %d (%d bytes) before the command", ti, t.Row, fi, len(f))
			}
			if !bytes.Equal(data, f) {
				return "memfile:content:" + t.Row, fmt.Sprintf("task %d (%s): chunks of file %d concatenate to %d bytes, expected %d", ti, t.Row, fi, len(data), len(f))
			}
		}
		present := false
		for _, x := range got {
			if x.ReqID == reqID && x.Cmd == t.Cmd {
				present = true
			}
		}
		if !present {
			return "task:missing:" + t.Row, fmt.Sprintf("task %d (%s, request %s) is not in the agent's task stream (%d tasks received)", ti, t.Row, t.TaskID, len(got))
		}
		if pos >= len(got) {
			return "task:out-of-order:" + t.Row, fmt.Sprintf("task %d (%s, request %s) is in the stream but not at its place", ti, t.Row, t.TaskID)
		}
		g := got[pos]
		pos++
		if g.Cmd != t.Cmd {
			return "task:command:" + t.Row, fmt.Sprintf("task %d (%s): command id %d, operator issued %d", ti, t.Row, g.Cmd, t.Cmd)
		}
		if g.ReqID != reqID {
			return "task:request-id:" + t.Row, fmt.Sprintf("task %d (%s): request id %#x, the operator was told %s", ti, t.Row, g.ReqID, t.TaskID)
		}
		if e2, extra := compareArgs(t.Exp, g.Body, fileIDs); e2 != "" {
			return "task:arguments:" + t.Row, fmt.Sprintf("task %d (%s): %s", ti, t.Row, e2)
		} else if extra > 0 {
			if t.WideLast && extra == 4 && len(t.Exp) > 0 && t.Exp[len(t.Exp)-1].K == "i32" {
				c.Observe("trailing.wide-last-int."+t.Row, 1)
			} else {
				return "task:extra-bytes:" + t.Row, fmt.Sprintf("task %d (%s): %d bytes follow the last argument the Demon reads", ti, t.Row, extra)
			}
		}
		c.Observe("row."+t.Row, 1)
	}
	if pos != len(got) {
		return "stream:unexpected-task", fmt.Sprintf("%d tasks in the stream were not issued by the operator (first: command %d request %#x)", len(got)-pos, got[pos].Cmd, got[pos].ReqID)
	}
	return "", ""
}

// compareArgs reads the body the way the Demon's handler does and compares every argument
// with the operator's parameter; it returns the number of unread bytes.
func compareArgs(exp []X, body []byte, fileIDs []uint32) (string, int) {
	rd := demon.Rd{B: body}
	for i, x := range exp {
		switch x.K {
		case "i32":
			if v := rd.I32(); rd.Err || v != uint32(x.U) {
				return fmt.Sprintf("argument %d: the Demon reads int32 %#x (short=%v), the operator gave %#x", i, v, rd.Err, uint32(x.U)), 0
			}
		case "i64":
			if v := rd.I64(); rd.Err || v != x.U {
				return fmt.Sprintf("argument %d: the Demon reads int64 %#x (short=%v), the operator gave %#x", i, v, rd.Err, x.U), 0
			}
		case "file":
			if v := rd.I32(); rd.Err || v != fileIDs[x.F] {
				return fmt.Sprintf("argument %d: memfile id %#x, the chunks carry %#x", i, v, fileIDs[x.F]), 0
			}
		case "W":
			v, term := rd.WStr()
			if rd.Err || !term || v != strings.TrimSuffix(x.S, "\x00") {
				return fmt.Sprintf("argument %d: the Demon reads wide string %.60q (terminated=%v short=%v), the operator gave %.60q", i, v, term, rd.Err, x.S), 0
			}
		case "S":
			v, term := rd.CStr()
			if rd.Err || !term || v != strings.TrimSuffix(x.S, "\x00") {
				return fmt.Sprintf("argument %d: the Demon reads string %.60q (terminated=%v short=%v), the operator gave %.60q", i, v, term, rd.Err, x.S), 0
			}
		case "B":
			if v := rd.Bytes(); rd.Err || !bytes.Equal(v, x.B) {
				return fmt.Sprintf("argument %d: the Demon reads %d bytes %x…, the operator gave %d bytes %x…", i, len(v), clip(v), len(x.B), clip(x.B)), 0
			}
		case "any-W":
			if v, term := rd.WStr(); rd.Err || !term || v == "" {
				return fmt.Sprintf("argument %d: a generated wide string is missing or unterminated", i), 0
			}
		case "any-B":
			if v := rd.Bytes(); rd.Err || len(v) == 0 {
				return fmt.Sprintf("argument %d: a teamserver-supplied byte argument is missing", i), 0
			}
		}
	}
	return "", len(rd.B)
}

func hasAny(exp []X) bool {
	for _, x := range exp {
		if x.K == "any-W" || x.K == "any-B" {
			return true
		}
	}
	return false
}

// alignAny replaces every any-W field of the body by an empty marker on both sides.
func alignAny(exp []X, body []byte, fileIDs []uint32) (nb, nw []byte, err string) {
	rd := demon.Rd{B: body}
	for _, x := range exp {
		switch x.K {
		case "any-W":
			s, term := rd.WStr()
			if rd.Err || !term || s == "" {
				return nil, nil, "a generated UTF-16 argument is missing or unterminated"
			}
		case "any-B":
			b := rd.Bytes()
			if rd.Err || len(b) == 0 {
				return nil, nil, "a teamserver-supplied byte argument (reflective loader) is missing"
			}
		default:
			one := encodeExp([]X{x}, fileIDs)
			if len(rd.B) < len(one) {
				return nil, nil, "body ends before all arguments"
			}
			nb = append(nb, rd.B[:len(one)]...)
			nw = append(nw, one...)
			rd.B = rd.B[len(one):]
		}
	}
	nb = append(nb, rd.B...)
	return nb, nw, ""
}

func parseHex(s string) (uint32, bool) {
	var v uint64
	_, err := fmt.Sscanf(strings.ToLower(s), "%x", &v)
	return uint32(v), err == nil
}

func commonPrefix(a, b []byte) int {
	n := 0
	for n < len(a) && n < len(b) && a[n] == b[n] {
		n++
	}
	return n
}

func clip(b []byte) []byte {
	if len(b) > 24 {
		return b[:24]
	}
	return b
}

func allZero(b []byte) bool {
	for _, x := range b {
		if x != 0 {
			return false
		}
	}
	return true
}

func genBatch(rng *rand.Rand, thorough bool) batch {
	b := batch{Key: make([]byte, 32), IV: make([]byte, 16), Agent: 0x02020000 | uint32(rng.Intn(0xffff))}
	switch rng.Intn(10) {
	case 0: // all-zero "no encryption" key
	case 1:
		for i := range b.Key {
			b.Key[i] = 0xff
		}
		for i := range b.IV {
			b.IV[i] = 0xff
		}
	case 2, 3: // a key related to one that another agent of this process used before
		prior := make([]byte, 32)
		rng.Read(b.Key)
		rng.Read(b.IV)
		switch rng.Intn(4) {
		case 0: // same first 16 bytes
			rng.Read(prior)
			copy(prior[:16], b.Key[:16])
		case 1: // same but for the last byte
			copy(prior, b.Key)
			prior[31] ^= byte(1 + rng.Intn(255))
		case 2: // the all-zero key before a key whose first half is zero
			for i := 0; i < 16; i++ {
				b.Key[i] = 0
			}
		default: // same second half
			rng.Read(prior)
			copy(prior[16:], b.Key[16:])
		}
		b.Prior = [][]byte{prior}
	default:
		rng.Read(b.Key)
		rng.Read(b.IV)
	}
	n := 1
	if rng.Intn(3) == 0 {
		n = 2 + rng.Intn(7)
	}
	g := &gen{r: rng, thorough: thorough}
	used := map[uint32]bool{}
	for i := 0; i < n; i++ {
		t := rows[rng.Intn(len(rows))].gen(g)
		var id uint32
		for {
			id = []uint32{rng.Uint32(), rng.Uint32() | 0x80000000, uint32(1 + rng.Intn(0xffff)), 0xffffffff, 0x7fffffff, 0x80000000}[rng.Intn(6)]
			if !used[id] && id != 0 {
				break
			}
		}
		used[id] = true
		t.TaskID = fmt.Sprintf("%08x", id)
		if rng.Intn(2) == 0 {
			t.TaskID = strings.ToUpper(t.TaskID)
		}
		b.Tasks = append(b.Tasks, t)
	}
	return b
}

func run(c *lib.Ctx) {
	c.Rule(fmt.Sprintf("operator Session/Input packages for %d command/sub-command rows with generated parameters (strings: empty, ASCII, BMP, astral, already NUL-terminated, long; integers at 0, 1, 2^31-1, 2^31, 2^32-1; enumerations; hex ids in mixed case), batches of 1..8 mixed tasks per agent, keys random / all-zero / all-0xFF; distinct = distinct batch; non-trivial = at least one task with arguments", len(rows)))
	c.Assume("the reference reader follows CommandDispatcher / ParserGet* (little-endian, one length-prefixed body per task, CTR restarted at the session IV for every task)",
		"values the package grammar cannot carry (';' inside ';'-joined fields, interior NUL) are outside the domain", "a final integer written 8 bytes wide where the Demon reads 4 is reported, not failed (its low 4 bytes are checked)")
	one := func(b batch) {
		js, _ := json.Marshal(b)
		c.Cur("batch", js)
		c.Eval()
		c.DistinctBytes(js)
		c.SampleSome(400, func() any { return shrinkForSample(b) })
		for _, pk := range b.Prior {
			// another agent with the related key is tasked first (its own teamserver: what is
			// shared between the two is process-wide state only)
			if w0, err := newWorld(c, pk, b.IV, b.Agent^0x00010000); err == nil {
				rig.Task(w0.r.TS, w0.sim.Hex(), 11, 0x77, map[string]any{"Arguments": "5;5"})
				w0.sim.Checkin(w0.h.GinEngine)
				w0.r.Close()
				c.Observe("related-key-used-before", 1)
			}
		}
		w, err := newWorld(c, b.Key, b.IV, b.Agent)
		if err != nil {
			if len(b.Prior) > 0 && strings.HasPrefix(err.Error(), "registration failed") {
				// the reference registration is the same as in every other batch; only the key
				// differs, and only in its relation to a key used before
				c.Violation("session-key:registration-rejected-after-related-key", "the registration of an agent is rejected ("+err.Error()+") after another agent whose session key shares a part of this agent's key was handled by this process: no task can be issued for this key", b)
				return
			}
			c.Inconclusive(err.Error())
			return
		}
		sig, what := runBatch(c, w, b)
		w.r.Close()
		if sig != "" {
			// minimise: try each task alone
			if len(b.Tasks) > 1 {
				for _, t := range b.Tasks {
					nb := b
					nb.Tasks = []taskSpec{t}
					if w2, err := newWorld(c, b.Key, b.IV, b.Agent); err == nil {
						s2, m2 := runBatch(c, w2, nb)
						w2.r.Close()
						if s2 == sig {
							b, what = nb, m2
							break
						}
					}
				}
			}
			c.Violation(sig, what, b)
		}
	}
	if c.Replay != nil {
		var b batch
		if json.Unmarshal(c.Replay, &b) == nil {
			one(b)
		}
		return
	}
	n := c.N(4000, 300000)
	for i := 0; i < n; i++ {
		one(genBatch(c.Rng, c.Thorough()))
	}
}

func shrinkForSample(b batch) any {
	var rows []string
	for _, t := range b.Tasks {
		rows = append(rows, t.Row+"#"+t.TaskID)
	}
	first := b.Tasks[0]
	info, _ := json.Marshal(first.Info)
	if len(info) > 300 {
		info = append(info[:300], '.', '.', '.')
	}
	return map[string]any{"tasks": rows, "first_info": string(info), "zero_key": allZero(b.Key)}
}
