package c02

import (
	"encoding/base64"
	"fmt"
	"math/rand"
	"strings"
	"time"
)

// rows: one entry per command / sub-command. Each generator returns the operator package
// keys (as the client sends them, DESIGN.md Appendix A / E) and the argument list the
// Demon's handler for that command reads (payloads/Demon/src/core/Command.c).

type gen struct {
	r        *rand.Rand
	thorough bool
}

type row struct {
	name string
	gen  func(g *gen) taskSpec
}

func b64(s string) string  { return base64.StdEncoding.EncodeToString([]byte(s)) }
func b64b(b []byte) string { return base64.StdEncoding.EncodeToString(b) }
func i32(v uint64) X       { return X{K: "i32", U: v} }
func wstr(s string) X      { return X{K: "W", S: s} }
func sstr(s string) X      { return X{K: "S", S: s} }
func bin(b []byte) X       { return X{K: "B", B: b} }

var boundary = []uint64{0, 1, 0x7fffffff, 0x80000000, 0xffffffff}

func (g *gen) u32() uint64 {
	if g.r.Intn(2) == 0 {
		return boundary[g.r.Intn(len(boundary))]
	}
	return uint64(g.r.Uint32())
}

// small non-negative int that every Atoi accepts
func (g *gen) pid() uint64 { return []uint64{0, 1, 4, 4242, 65535, 0x7fffffff}[g.r.Intn(6)] }

// str produces a parameter string; noSemi: the value travels in a ';'-joined field.
func (g *gen) str(noSemi bool) string {
	var s string
	switch g.r.Intn(9) {
	case 0:
		s = ""
	case 1:
		s = "C:\\Windows\\System32\\cmd.exe"
	case 2:
		s = "päth\\ünï\\日本語"
	case 3:
		s = "emoji😀\\𝔘𝔫𝔦.txt"
	case 4:
		s = "terminated\x00"
	case 5:
		n := 1 << 10
		if g.r.Intn(6) == 0 {
			n = 256 << 10
			if g.thorough && g.r.Intn(4) == 0 {
				n = 4 << 20
			}
		}
		s = strings.Repeat("Long-Param-", n/11+1)[:n]
	case 6:
		s = "with spaces and \"quotes\" and 'single' & | $() `x`"
	case 7:
		s = fmt.Sprintf("CANARY-%08x-%08x", g.r.Uint32(), g.r.Uint32())
	default:
		b := make([]rune, 1+g.r.Intn(20))
		for i := range b {
			b[i] = rune(0x21 + g.r.Intn(0x5e))
		}
		s = string(b)
	}
	if noSemi {
		s = strings.ReplaceAll(s, ";", ",")
	}
	return s
}

// path: a string the dir handler does not rewrite (no trailing '\' or ':', no UNC prefix)
func (g *gen) path(noSemi bool) string {
	s := g.str(noSemi)
	s = strings.TrimPrefix(s, "\\\\")
	for strings.HasSuffix(s, "\\") || strings.HasSuffix(s, ":") {
		s = s[:len(s)-1]
	}
	return s
}

func (g *gen) blob(max int) []byte {
	n := g.r.Intn(max + 1)
	if g.r.Intn(4) == 0 {
		n = 0
	}
	b := make([]byte, n)
	g.r.Read(b)
	return b
}

func boolStr(b bool) string {
	if b {
		return "true"
	}
	return "false"
}
func boolInt(b bool) uint64 {
	if b {
		return 1
	}
	return 0
}

var rows []row

func add(name string, f func(g *gen) taskSpec) {
	rows = append(rows, row{name, func(g *gen) taskSpec { t := f(g); t.Row = name; return t }})
}

func init() {
	add("sleep", func(g *gen) taskSpec {
		d, j := g.u32(), uint64(g.r.Intn(101))
		return taskSpec{Cmd: 11, Info: map[string]any{"Arguments": fmt.Sprintf("%d;%d", d, j)}, Exp: []X{i32(d), i32(j)}}
	})
	add("checkin", func(g *gen) taskSpec { return taskSpec{Cmd: 100, Info: map[string]any{}} })
	add("screenshot", func(g *gen) taskSpec { return taskSpec{Cmd: 2510, Info: map[string]any{}} })
	add("assembly.list-versions", func(g *gen) taskSpec { return taskSpec{Cmd: 0x2003, Info: map[string]any{}} })
	add("exit", func(g *gen) taskSpec {
		if g.r.Intn(2) == 0 {
			return taskSpec{Cmd: 92, Info: map[string]any{"ExitMethod": "thread"}, Exp: []X{i32(1)}}
		}
		return taskSpec{Cmd: 92, Info: map[string]any{"ExitMethod": "process"}, Exp: []X{i32(2)}}
	})
	add("job.list", func(g *gen) taskSpec {
		return taskSpec{Cmd: 21, Info: map[string]any{"Command": "list", "Param": "0"}, Exp: []X{i32(1)}}
	})
	add("job.ctl", func(g *gen) taskSpec {
		k := g.r.Intn(3)
		id := g.pid()
		return taskSpec{Cmd: 21, Info: map[string]any{"Command": []string{"suspend", "resume", "kill"}[k], "Param": fmt.Sprint(id)}, Exp: []X{i32(uint64(2 + k)), i32(id)}}
	})
	add("proc.modules", func(g *gen) taskSpec {
		p := g.pid()
		return taskSpec{Cmd: 0x1010, Info: map[string]any{"ProcCommand": "2", "Args": fmt.Sprint(p)}, Exp: []X{i32(2), i32(p)}}
	})
	add("proc.grep", func(g *gen) taskSpec {
		s := g.str(false)
		return taskSpec{Cmd: 0x1010, Info: map[string]any{"ProcCommand": "3", "Args": s}, Exp: []X{i32(3), wstr(s)}}
	})
	add("proc.create", func(g *gen) taskSpec {
		state := uint64(g.r.Intn(5))
		verbose, piped := g.r.Intn(2) == 0, g.r.Intn(2) == 0
		proc, args := g.str(true), g.str(false)
		return taskSpec{Cmd: 0x1010, Info: map[string]any{"ProcCommand": "4", "Args": fmt.Sprintf("%d;%s;%s;%s;%s", state, boolStr(verbose), boolStr(piped), proc, b64(args))},
			Exp: []X{i32(4), i32(state), wstr(proc), wstr(args), i32(boolInt(piped)), i32(boolInt(verbose))}}
	})
	add("proc.memory", func(g *gen) taskSpec {
		prots := map[string]uint64{"PAGE_NOACCESS": 0x01, "PAGE_READONLY": 0x02, "PAGE_READWRITE": 0x04, "PAGE_WRITECOPY": 0x08, "PAGE_EXECUTE": 0x10, "PAGE_EXECUTE_READ": 0x20, "PAGE_EXECUTE_READWRITE": 0x40, "PAGE_EXECUTE_WRITECOPY": 0x80, "PAGE_GUARD": 0x100}
		names := []string{"PAGE_NOACCESS", "PAGE_READONLY", "PAGE_READWRITE", "PAGE_WRITECOPY", "PAGE_EXECUTE", "PAGE_EXECUTE_READ", "PAGE_EXECUTE_READWRITE", "PAGE_EXECUTE_WRITECOPY", "PAGE_GUARD"}
		n := names[g.r.Intn(len(names))]
		p := g.pid()
		return taskSpec{Cmd: 0x1010, Info: map[string]any{"ProcCommand": "6", "Args": fmt.Sprintf("%d %s", p, n)}, Exp: []X{i32(6), i32(p), i32(prots[n])}}
	})
	add("proc.kill", func(g *gen) taskSpec {
		p := g.pid()
		return taskSpec{Cmd: 0x1010, Info: map[string]any{"ProcCommand": "7", "Args": fmt.Sprint(p)}, Exp: []X{i32(7), i32(p)}}
	})
	add("proc_list", func(g *gen) taskSpec {
		ui := g.r.Intn(2) == 0
		return taskSpec{Cmd: 12, Info: map[string]any{"FromProcessManager": boolStr(ui)}, Exp: []X{i32(boolInt(ui))}}
	})
	add("ppidspoof", func(g *gen) taskSpec {
		p := g.u32()
		return taskSpec{Cmd: 27, Info: map[string]any{"PPID": fmt.Sprint(p)}, Exp: []X{i32(p)}}
	})
	add("fs.dir", func(g *gen) taskSpec {
		p, st, co, en := g.path(true), g.str(true), g.str(true), g.str(true)
		f := [4]bool{g.r.Intn(2) == 0, g.r.Intn(2) == 0, g.r.Intn(2) == 0, g.r.Intn(2) == 0}
		return taskSpec{Cmd: 15, Info: map[string]any{"SubCommand": "dir", "Arguments": strings.Join([]string{p, boolStr(f[0]), boolStr(f[1]), boolStr(f[2]), boolStr(f[3]), st, co, en}, ";")},
			Exp: []X{i32(1), i32(0), wstr(p), i32(boolInt(f[0])), i32(boolInt(f[1])), i32(boolInt(f[2])), i32(boolInt(f[3])), wstr(st), wstr(co), wstr(en)}}
	})
	add("fs.dir-ui", func(g *gen) taskSpec {
		p := g.path(false)
		return taskSpec{Cmd: 15, Info: map[string]any{"SubCommand": "dir;ui", "Arguments": p},
			Exp: []X{i32(1), i32(1), wstr(p), i32(0), i32(0), i32(0), i32(0), wstr(""), wstr(""), wstr("")}}
	})
	for _, sc := range []struct {
		n   string
		sub uint64
	}{{"download", 2}, {"cat", 10}} {
		sc := sc
		add("fs."+sc.n, func(g *gen) taskSpec {
			p := g.str(false)
			return taskSpec{Cmd: 15, Info: map[string]any{"SubCommand": sc.n, "Arguments": b64(p)}, Exp: []X{i32(sc.sub), wstr(p)}}
		})
	}
	add("fs.upload", func(g *gen) taskSpec {
		p, content := g.str(false), g.blob(3000)
		return taskSpec{Cmd: 15, Info: map[string]any{"SubCommand": "upload", "Arguments": b64(p) + ";" + b64b(content)}, Files: [][]byte{content},
			Exp: []X{i32(3), wstr(p), {K: "file", F: 0}}}
	})
	for _, sc := range []struct {
		n   string
		sub uint64
	}{{"cd", 4}, {"remove", 5}, {"mkdir", 6}} {
		sc := sc
		add("fs."+sc.n, func(g *gen) taskSpec {
			p := g.str(false)
			return taskSpec{Cmd: 15, Info: map[string]any{"SubCommand": sc.n, "Arguments": p}, Exp: []X{i32(sc.sub), wstr(p)}}
		})
	}
	for _, sc := range []struct {
		n   string
		sub uint64
	}{{"cp", 7}, {"mv", 8}} {
		sc := sc
		add("fs."+sc.n, func(g *gen) taskSpec {
			a, b := g.str(false), g.str(false)
			return taskSpec{Cmd: 15, Info: map[string]any{"SubCommand": sc.n, "Arguments": b64(a) + ";" + b64(b)}, Exp: []X{i32(sc.sub), wstr(a), wstr(b)}}
		})
	}
	add("fs.pwd", func(g *gen) taskSpec {
		return taskSpec{Cmd: 15, Info: map[string]any{"SubCommand": "pwd", "Arguments": ""}, Exp: []X{i32(9)}}
	})
	add("inline-execute", func(g *gen) taskSpec {
		fn, obj, params := g.str(false), g.blob(4000), g.blob(600)
		fl := g.r.Intn(4)
		return taskSpec{Cmd: 20, Info: map[string]any{"FunctionName": fn, "Binary": b64b(obj), "Arguments": b64b(params), "Flags": []string{"non-threaded", "threaded", "default", "bogus"}[fl], "HasCallback": "false"},
			Files: [][]byte{obj, params}, Exp: []X{sstr(fn), {K: "file", F: 0}, {K: "file", F: 1}, i32([]uint64{0, 1, 2, 0}[fl])}}
	})
	add("assembly.inline-execute", func(g *gen) taskSpec {
		bin, args := g.blob(4000), g.str(false)
		return taskSpec{Cmd: 0x2001, Info: map[string]any{"Binary": b64b(bin), "Arguments": args}, Files: [][]byte{bin},
			Exp: []X{{K: "any-W"}, wstr("DefaultDomain"), wstr("v4.0.30319"), {K: "file", F: 0}, wstr(args)}}
	})
	add("inject-shellcode.inject", func(g *gen) taskSpec {
		tech := g.r.Intn(4)
		x64 := g.r.Intn(2) == 0
		arch := "x86"
		if x64 {
			arch = "x64"
		}
		sc, arg, pid := g.blob(3000), g.blob(100), g.pid()
		var argExp []byte
		if len(arg) > 0 {
			argExp = arg
		}
		return taskSpec{Cmd: 24, Info: map[string]any{"Way": "Inject", "Technique": []string{"default", "CreateRemoteThread", "NtCreateThreadEx", "NtQueueApcThread"}[tech], "Arch": arch, "Binary": b64b(sc), "Argument": b64b(arg), "PID": fmt.Sprint(pid)},
			Exp: []X{i32(1), i32(uint64(tech)), i32(boolInt(x64)), bin(sc), bin(argExp), i32(pid)}}
	})
	for _, way := range []struct {
		n string
		v uint64
	}{{"Spawn", 0}, {"Execute", 2}} {
		way := way
		add("inject-shellcode."+strings.ToLower(way.n), func(g *gen) taskSpec {
			tech := g.r.Intn(4)
			x64 := g.r.Intn(2) == 0
			arch := "x86"
			if x64 {
				arch = "x64"
			}
			sc, arg := g.blob(3000), g.blob(100)
			return taskSpec{Cmd: 24, Info: map[string]any{"Way": way.n, "Technique": []string{"default", "createremotethread", "ntcreatethreadex", "ntqueueapcthread"}[tech], "Arch": arch, "Binary": b64b(sc), "Argument": b64b(arg)},
				Exp: []X{i32(way.v), i32(uint64(tech)), i32(boolInt(x64)), bin(sc), bin(arg)}}
		})
	}
	add("token.impersonate", func(g *gen) taskSpec {
		id := g.pid()
		return taskSpec{Cmd: 40, Info: map[string]any{"SubCommand": "impersonate", "Arguments": fmt.Sprint(id)}, Exp: []X{i32(1), i32(id)}}
	})
	add("token.steal", func(g *gen) taskSpec {
		pid, h := g.pid(), g.u32()
		return taskSpec{Cmd: 40, Info: map[string]any{"SubCommand": "steal", "Arguments": fmt.Sprintf("%d;%x", pid, h)}, Exp: []X{i32(2), i32(pid), i32(h)}}
	})
	for _, sc := range []struct {
		n   string
		sub uint64
	}{{"list", 3}, {"getuid", 6}, {"revert", 7}, {"clear", 9}, {"find", 10}} {
		sc := sc
		add("token."+sc.n, func(g *gen) taskSpec {
			return taskSpec{Cmd: 40, Info: map[string]any{"SubCommand": sc.n, "Arguments": ""}, Exp: []X{i32(sc.sub)}}
		})
	}
	add("token.privs-list", func(g *gen) taskSpec {
		return taskSpec{Cmd: 40, Info: map[string]any{"SubCommand": "privs-list", "Arguments": ""}, Exp: []X{i32(4), i32(1)}}
	})
	add("token.privs-get", func(g *gen) taskSpec {
		p := "Se" + g.str(false)
		return taskSpec{Cmd: 40, Info: map[string]any{"SubCommand": "privs-get", "Arguments": p}, Exp: []X{i32(4), i32(0), sstr(p)}}
	})
	add("token.make", func(g *gen) taskSpec {
		d, u, p := g.str(false), g.str(false), g.str(false)
		lt := uint64(2 + g.r.Intn(8))
		return taskSpec{Cmd: 40, Info: map[string]any{"SubCommand": "make", "Arguments": fmt.Sprintf("%s;%s;%s;%d", b64(d), b64(u), b64(p), lt)}, Exp: []X{i32(5), wstr(d), wstr(u), wstr(p), i32(lt)}}
	})
	add("token.remove", func(g *gen) taskSpec {
		id := g.pid()
		return taskSpec{Cmd: 40, Info: map[string]any{"SubCommand": "remove", "Arguments": fmt.Sprint(id)}, Exp: []X{i32(8), i32(id)}}
	})
	for _, k := range []struct {
		key string
		id  uint64
	}{{"implant.verbose", 4}, {"implant.coffee.veh", 7}, {"implant.coffee.threaded", 6}} {
		k := k
		add("config."+k.key, func(g *gen) taskSpec {
			v := g.r.Intn(2) == 0
			return taskSpec{Cmd: 2500, Info: map[string]any{"ConfigKey": k.key, "ConfigVal": boolStr(v)}, Exp: []X{i32(k.id), i32(boolInt(v))}}
		})
	}
	for _, k := range []struct {
		key string
		id  uint64
	}{{"implant.sleep-obf.technique", 5}, {"memory.alloc", 101}, {"memory.execute", 102}, {"inject.technique", 150}} {
		k := k
		add("config."+k.key, func(g *gen) taskSpec {
			v := uint64(g.r.Intn(5))
			return taskSpec{Cmd: 2500, Info: map[string]any{"ConfigKey": k.key, "ConfigVal": fmt.Sprint(v)}, Exp: []X{i32(k.id), i32(v)}}
		})
	}
	for _, k := range []struct {
		key string
		id  uint64
	}{{"implant.sleep-obf.start-addr", 3}, {"inject.spoofaddr", 151}} {
		k := k
		add("config."+k.key, func(g *gen) taskSpec {
			off := uint64(g.r.Intn(0x7fffffff))
			lib, fn := "ntdll.dll", "RtlUserThreadStart"
			return taskSpec{Cmd: 2500, Info: map[string]any{"ConfigKey": k.key, "ConfigVal": fmt.Sprintf("%s!%s+0x%x", lib, fn, off)}, Exp: []X{i32(k.id), sstr(lib), sstr(fn), i32(off)}, WideLast: true}
		})
	}
	for _, k := range []struct {
		key string
		id  uint64
	}{{"inject.spawn64", 152}, {"inject.spawn32", 153}} {
		k := k
		add("config."+k.key, func(g *gen) taskSpec {
			p := g.str(false)
			// the Demon reads the value with ParserGetBytes and uses it as a wide string
			return taskSpec{Cmd: 2500, Info: map[string]any{"ConfigKey": k.key, "ConfigVal": p}, Exp: []X{i32(k.id), wstr(p)}}
		})
	}
	add("config.killdate-zero", func(g *gen) taskSpec {
		return taskSpec{Cmd: 2500, Info: map[string]any{"ConfigKey": "killdate", "ConfigVal": "0"}, Exp: []X{i32(154), {K: "i64", U: 0}}}
	})
	add("config.killdate", func(g *gen) taskSpec {
		// 2099-01-02 03:04:05 UTC = 4070919845 -> FILETIME ticks
		unix := uint64(time.Date(2099, 1, 2, 3, 4, 5, 0, time.UTC).Unix())
		ft := unix*10000000 + 0x019DB1DED53E8000
		return taskSpec{Cmd: 2500, Info: map[string]any{"ConfigKey": "killdate", "ConfigVal": "2099-01-02 03:04:05"}, Exp: []X{i32(154), {K: "i64", U: ft}}}
	})
	add("config.workinghours", func(g *gen) taskSpec {
		sh, sm, eh, em := uint64(g.r.Intn(12)), uint64(g.r.Intn(60)), uint64(12+g.r.Intn(12)), uint64(g.r.Intn(60))
		v := uint64(1)<<22 | sh<<17 | sm<<11 | eh<<6 | em
		return taskSpec{Cmd: 2500, Info: map[string]any{"ConfigKey": "workinghours", "ConfigVal": fmt.Sprintf("%d:%02d-%d:%02d", sh, sm, eh, em)}, Exp: []X{i32(155), i32(v)}}
	})
	add("net.domain", func(g *gen) taskSpec {
		return taskSpec{Cmd: 2100, Info: map[string]any{"NetCommand": "1", "Param": ""}, Exp: []X{i32(1)}}
	})
	add("net.target", func(g *gen) taskSpec {
		n := uint64(2 + g.r.Intn(8))
		t := g.str(false)
		return taskSpec{Cmd: 2100, Info: map[string]any{"NetCommand": fmt.Sprint(n), "Param": t}, Exp: []X{i32(n), wstr(t)}}
	})
	add("pivot.list", func(g *gen) taskSpec {
		return taskSpec{Cmd: 2520, Info: map[string]any{"Command": "1", "Param": ""}, Exp: []X{i32(1)}}
	})
	add("pivot.connect", func(g *gen) taskSpec {
		p := "\\\\host\\pipe\\" + g.str(false)
		return taskSpec{Cmd: 2520, Info: map[string]any{"Command": "10", "Param": p}, Exp: []X{i32(10), wstr(p)}}
	})
	add("pivot.disconnect", func(g *gen) taskSpec {
		id := g.u32()
		return taskSpec{Cmd: 2520, Info: map[string]any{"Command": "11", "Param": fmt.Sprintf("%08x", id)}, Exp: []X{i32(11), i32(id)}, WideLast: true}
	})
	add("transfer.list", func(g *gen) taskSpec {
		return taskSpec{Cmd: 2530, Info: map[string]any{"Command": "list", "FileID": ""}, Exp: []X{i32(0)}}
	})
	add("transfer.ctl", func(g *gen) taskSpec {
		k := g.r.Intn(3)
		id := g.u32()
		return taskSpec{Cmd: 2530, Info: map[string]any{"Command": []string{"stop", "resume", "remove"}[k], "FileID": fmt.Sprintf("%x", id)}, Exp: []X{i32(uint64(1 + k)), i32(id)}, WideLast: true}
	})
	add("rportfwd.add", func(g *gen) taskSpec {
		ip := func() (string, uint64) {
			a, b, c, d := g.r.Intn(256), g.r.Intn(256), g.r.Intn(256), g.r.Intn(256)
			return fmt.Sprintf("%d.%d.%d.%d", a, b, c, d), uint64(a) | uint64(b)<<8 | uint64(c)<<16 | uint64(d)<<24
		}
		l, lv := ip()
		f, fv := ip()
		lp, fp := uint64(g.r.Intn(65536)), uint64(g.r.Intn(65536))
		return taskSpec{Cmd: 2540, Info: map[string]any{"Command": "rportfwd add", "Params": fmt.Sprintf("%s;%d;%s;%d", l, lp, f, fp)}, Exp: []X{i32(0), i32(lv), i32(lp), i32(fv), i32(fp)}}
	})
	add("rportfwd.list", func(g *gen) taskSpec {
		return taskSpec{Cmd: 2540, Info: map[string]any{"Command": "rportfwd list", "Params": ""}, Exp: []X{i32(2)}}
	})
	add("rportfwd.clear", func(g *gen) taskSpec {
		return taskSpec{Cmd: 2540, Info: map[string]any{"Command": "rportfwd clear", "Params": ""}, Exp: []X{i32(3)}}
	})
	add("rportfwd.remove", func(g *gen) taskSpec {
		id := g.u32()
		return taskSpec{Cmd: 2540, Info: map[string]any{"Command": "rportfwd remove", "Params": fmt.Sprintf("%x", id)}, Exp: []X{i32(4), i32(id)}}
	})
	add("kerberos.luid", func(g *gen) taskSpec {
		return taskSpec{Cmd: 2550, Info: map[string]any{"Command": "luid"}, Exp: []X{i32(0)}}
	})
	add("kerberos.klist-all", func(g *gen) taskSpec {
		return taskSpec{Cmd: 2550, Info: map[string]any{"Command": "klist", "Argument1": "/all"}, Exp: []X{i32(1), i32(0)}}
	})
	add("kerberos.klist-luid", func(g *gen) taskSpec {
		l := g.u32()
		pre := []string{"", "0x"}[g.r.Intn(2)]
		return taskSpec{Cmd: 2550, Info: map[string]any{"Command": "klist", "Argument1": "/luid", "Argument2": fmt.Sprintf("%s%x", pre, l)}, Exp: []X{i32(1), i32(1), i32(l)}}
	})
	add("kerberos.purge", func(g *gen) taskSpec {
		l := g.u32()
		return taskSpec{Cmd: 2550, Info: map[string]any{"Command": "purge", "Argument": fmt.Sprintf("0x%x", l)}, Exp: []X{i32(2), i32(l)}}
	})
	add("kerberos.ptt", func(g *gen) taskSpec {
		l := g.u32()
		tk := g.blob(2000)
		return taskSpec{Cmd: 2550, Info: map[string]any{"Command": "ptt", "Ticket": b64b(tk), "Luid": fmt.Sprintf("%x", l)}, Exp: []X{i32(3), bin(tk), i32(l)}}
	})
	add("spawndll", func(g *gen) taskSpec {
		dll, args := g.blob(3000), g.blob(200)
		return taskSpec{Cmd: 26, Info: map[string]any{"Binary": b64b(dll), "Arguments": b64b(args)}, Exp: []X{{K: "any-B"}, bin(dll), bin(args)}}
	})
	add("inject-dll", func(g *gen) taskSpec {
		dll, pid := g.blob(3000), g.pid()
		param := g.str(false)
		return taskSpec{Cmd: 22, Info: map[string]any{"Binary": b64b(dll), "PID": fmt.Sprint(pid), "Arguments": param}, Exp: []X{i32(0), i32(pid), {K: "any-B"}, bin(dll), sstr(param)}}
	})
}
