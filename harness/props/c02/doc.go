// Package c02 holds the workload and monitor for property C02 (see /verif/DESIGN.md §3).
package c02
