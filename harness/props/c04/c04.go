// Package c04: "Every queued task is delivered exactly once, in order, in bounded batches".
//
//	seq   sequential enqueue/check-in histories (all sequences of length <= 6 over {enq small,
//	      enq big, check-in} + random with size classes around the 30 MiB limit) against a FIFO
//	      reference that asserts prefix, order, exactly-once, progress and the size rule
//	chunk files around multiples of the chunk size pushed via upload: MEM_FILE chunks carry one
//	      id and the total size, precede the consuming command and concatenate to the file
//	conc  concurrent producers (operator goroutines through DispatchEvent) and one consumer
//	      (listener check-ins) on one agent; recorded call/return history checked per agent
//	      with porcupine against a FIFO batch-dequeue model, exactly-once after a final drain;
//	      the Go race detector watches the queue and the outstanding list throughout
package c04

import (
	"Havoc/pkg/packager"
	"bytes"
	"encoding/base64"
	"encoding/binary"
	"encoding/json"
	"fmt"
	"os"
	"runtime"
	"sync"
	"sync/atomic"
	"time"

	"Havoc/pkg/handlers"
	"Havoc/pkg/verifhook"

	"github.com/anishathalye/porcupine"

	"verifh/demon"
	"verifh/lib"
	"verifh/rig"
)

func init() { lib.Register("C04", run) }

const maxResp = 0x1e00000 // DEMON_MAX_RESPONSE_LENGTH as documented: 30 MiB

type op struct {
	Op   string `json:"op"`             // enq | checkin
	Size int    `json:"size,omitempty"` // payload bytes of the task
	// enq: 1 = the task is for the linked (pivot) agent; it travels in the parent's queue
	Target int `json:"target,omitempty"`
	// checkin: where COMMAND_GET_JOB stands among the packages of the request:
	// 0 alone | 1 [GET_JOB][output] | 2 [output][GET_JOB] | 3 [output][GET_JOB][output]
	Form int `json:"form,omitempty"`
}

type seqCase struct {
	Kind  string `json:"kind"`            // "seq"
	Pivot bool   `json:"pivot,omitempty"` // the agent has a linked agent below it
	Ops   []op   `json:"ops"`
}

type world struct {
	r     *rig.Rig
	h     *handlers.HTTP
	sim   *rig.Sim
	child *rig.Sim
	next  uint32
}

// link registers a pivot agent below the world's agent (answer to a `pivot connect` task).
func (w *world) link(c *lib.Ctx) error {
	w.next++
	req := w.next
	rig.TaskSimple(w.r.TS, w.sim.Hex(), req)
	w.sim.Checkin(w.h.GinEngine)
	w.child = rig.NewSim(c.Rng, w.sim.ID^0x00010000)
	if _, _, ok := w.sim.Checkin(w.h.GinEngine, demon.SmbConnect(req, w.child.RegisterBytes())); !ok {
		return fmt.Errorf("pivot registration not answered")
	}
	if len(w.r.TS.Agents.Agents) != 2 {
		return fmt.Errorf("pivot registration: %d sessions", len(w.r.TS.Agents.Agents))
	}
	return nil
}

// checkin sends a check-in of the given form and decodes the reply.
func (w *world) checkin(form int) (rig.Resp, []demon.Task, bool) {
	out := func(s string) demon.Callback {
		var p demon.Pkg
		p.Str(s)
		return demon.Callback{Cmd: 90, ReqID: 0x0badbad0, Body: p.B}
	}
	var body []byte
	switch form {
	case 1:
		body = demon.CheckinAt(w.sim.ID, w.sim.Key, w.sim.IV, 0, out("after"))
	case 2:
		body = demon.CheckinAt(w.sim.ID, w.sim.Key, w.sim.IV, 1, out("before"))
	case 3:
		body = demon.CheckinAt(w.sim.ID, w.sim.Key, w.sim.IV, 1, out("before"), out("after"))
	default:
		return w.sim.Checkin(w.h.GinEngine)
	}
	resp := rig.Post(w.h.GinEngine, "/", body, nil)
	if resp.Panic != nil || resp.Status != 200 {
		return resp, nil, false
	}
	t, ok := demon.ParseTasks(resp.Body, w.sim.Key, w.sim.IV)
	return resp, t, ok
}

// innerID returns the request id of the task a COMMAND_PIVOT task carries for the linked
// agent ([12][child id][frame: id, size, task stream under the child's key]).
func (w *world) innerID(t demon.Task) (uint32, bool) {
	if w.child == nil || t.Cmd != demon.CmdPivot {
		return 0, false
	}
	rd := demon.Rd{B: t.Body}
	sub, next, frame := rd.I32(), rd.I32(), rd.Bytes()
	if rd.Err || sub != demon.PivotSmbCmd || next != w.child.ID {
		return 0, false
	}
	id, pkg, ok := demon.SmbFrame(frame)
	if !ok || id != w.child.ID {
		return 0, false
	}
	inner, ok := demon.ParseTasks(pkg, w.child.Key, w.child.IV)
	if !ok || len(inner) != 1 {
		return 0, false
	}
	return inner[0].ReqID, true
}

func newWorld(c *lib.Ctx, id uint32) (*world, error) {
	r, err := rig.New(rig.Options{})
	if err != nil {
		return nil, err
	}
	h, err := r.StartHTTP(handlers.HTTPConfig{Name: "c04"})
	if err != nil {
		return nil, err
	}
	w := &world{r: r, h: h, sim: rig.NewSim(c.Rng, id), next: 0x100}
	if resp := w.sim.Register(h.GinEngine); resp.Status != 200 {
		return nil, fmt.Errorf("registration failed: %d", resp.Status)
	}
	return w, nil
}

var bigBuf = bytes.Repeat([]byte{0xA5}, 41<<20)

// enqueue issues one task whose payload has `size` bytes: a shellcode-inject task carries
// the binary inline ([way][technique][x64][B binary][B args][pid]), size 0 = sleep task.
func (w *world) enqueue(size int, target ...int) uint32 {
	w.next++
	id := w.next
	hex := w.sim.Hex()
	if len(target) > 0 && target[0] == 1 && w.child != nil {
		hex = w.child.Hex()
	}
	if size == 0 {
		rig.Task(w.r.TS, hex, 11, id, map[string]any{"Arguments": "5;5"})
		return id
	}
	rig.Task(w.r.TS, hex, 24, id, map[string]any{"Way": "Inject", "Technique": "default", "Arch": "x64", "PID": "4242",
		"Binary": base64.StdEncoding.EncodeToString(bigBuf[:size]), "Argument": ""})
	return id
}

type modelTask struct {
	id   uint32
	size int
}

func runSeq(c *lib.Ctx, cs seqCase) (sig, what string) {
	w, err := newWorld(c, 0x04040000+uint32(c.Rng.Intn(0xffff)))
	if err != nil {
		c.Inconclusive(err.Error())
		return
	}
	defer w.r.Close()
	if cs.Pivot {
		if err := w.link(c); err != nil {
			c.Inconclusive("seq: " + err.Error())
			return
		}
	}
	var q []modelTask
	delivered := map[uint32]int{}
	for i, o := range cs.Ops {
		switch o.Op {
		case "enq":
			id := w.enqueue(o.Size, o.Target)
			q = append(q, modelTask{id, o.Size})
			if o.Target == 1 && w.child != nil {
				c.Observe("seq.task-for-linked-agent", 1)
			}
		case "checkin":
			resp, tasks, ok := w.checkin(o.Form)
			if o.Form != 0 {
				c.Observe(fmt.Sprintf("seq.checkin-form-%d", o.Form), 1)
			}
			// a task for the linked agent arrives wrapped: it is identified by the request id inside
			for k := range tasks {
				if id, ok := w.innerID(tasks[k]); ok {
					tasks[k].ReqID = id
				}
			}
			if resp.Panic != nil {
				return lib.PanicSig(resp.Panic, resp.Stack), fmt.Sprintf("op %d: check-in panics: %v", i, resp.Panic)
			}
			if !ok {
				return "seq:response-not-a-task-stream", fmt.Sprintf("op %d: check-in answered %d / undecodable", i, resp.Status)
			}
			if len(tasks) == 1 && tasks[0].Cmd == demon.CmdNoJob {
				if len(q) > 0 {
					return "seq:nojob-while-queued", fmt.Sprintf("op %d: no-job reply although %d tasks are queued (first %#x)", i, len(q), q[0].id)
				}
				c.Observe("seq.nojob", 1)
				continue
			}
			if len(tasks) == 0 {
				return "seq:empty-reply", fmt.Sprintf("op %d: empty reply (neither tasks nor no-job), %d queued", i, len(q))
			}
			before := 0
			for k, t := range tasks {
				if t.Cmd == demon.CmdNoJob {
					return "seq:nojob-mixed", fmt.Sprintf("op %d: no-job marker inside a task batch", i)
				}
				if k >= len(q) || q[k].id != t.ReqID {
					exp := "nothing"
					if k < len(q) {
						exp = fmt.Sprintf("%#x", q[k].id)
					}
					if delivered[t.ReqID] > 0 {
						return "seq:delivered-twice", fmt.Sprintf("op %d: task %#x delivered again (position %d of the reply)", i, t.ReqID, k)
					}
					return "seq:out-of-order", fmt.Sprintf("op %d: reply position %d holds task %#x, the queue has %s there", i, k, t.ReqID, exp)
				}
				if k > 0 && before >= maxResp {
					return "seq:batch-exceeds-limit", fmt.Sprintf("op %d: reply continues with task %d although the %d bytes before it already reach the 30 MiB limit", i, k, before)
				}
				before += len(t.Body)
				delivered[t.ReqID]++
			}
			if len(tasks) > 1 && before >= maxResp {
				return "seq:batch-exceeds-limit", fmt.Sprintf("op %d: a reply with %d tasks carries %d bytes of task data, which reaches the 30 MiB limit (only a single task may)", i, len(tasks), before)
			}
			c.ObserveMax("max:seq.batch_bytes", int64(before))
			if len(tasks) > 1 {
				c.Observe("seq.multi-task-batches", 1)
			}
			q = q[len(tasks):]
		}
	}
	// drain: everything still queued must come out, in order, within len(q) check-ins
	for n := len(q); n > 0 && len(q) > 0; n-- {
		_, tasks, ok := w.sim.Checkin(w.h.GinEngine)
		for k := range tasks {
			if id, ok := w.innerID(tasks[k]); ok {
				tasks[k].ReqID = id
			}
		}
		if !ok || (len(tasks) == 1 && tasks[0].Cmd == demon.CmdNoJob) || len(tasks) == 0 {
			return "seq:never-delivered", fmt.Sprintf("drain: %d tasks are queued (first %#x, %d bytes) but the check-in delivers nothing", len(q), q[0].id, q[0].size)
		}
		for k, t := range tasks {
			if k >= len(q) || q[k].id != t.ReqID {
				return "seq:out-of-order", fmt.Sprintf("drain: unexpected task %#x at position %d", t.ReqID, k)
			}
		}
		q = q[len(tasks):]
	}
	if len(q) > 0 {
		return "seq:never-delivered", fmt.Sprintf("drain: %d tasks left after as many check-ins", len(q))
	}
	return "", ""
}

// ---- chunking ----

type chunkCase struct {
	Kind string `json:"kind"` // "chunk"
	Size int    `json:"size"`
	// List: the operator looks at the queue (`task list`) while the chunks are waiting
	List bool `json:"list,omitempty"`
}

func runChunk(c *lib.Ctx, cs chunkCase) (sig, what string) {
	w, err := newWorld(c, 0x04050000+uint32(c.Rng.Intn(0xffff)))
	if err != nil {
		c.Inconclusive(err.Error())
		return
	}
	defer w.r.Close()
	file := make([]byte, cs.Size)
	for i := 0; i < len(file); i += 4093 {
		file[i] = byte(i / 4093)
	}
	if cs.Size > 8 {
		binary.LittleEndian.PutUint64(file[cs.Size-8:], 0xfeedfacecafebeef)
	}
	w.next++
	id := w.next
	path := "C:\\up\\file.bin"
	rig.Task(w.r.TS, w.sim.Hex(), 15, id, map[string]any{"SubCommand": "upload",
		"Arguments": base64.StdEncoding.EncodeToString([]byte(path)) + ";" + base64.StdEncoding.EncodeToString(file)})
	if cs.List {
		w.next++
		// (not a one-time package: the teamserver drops those before running the command)
		w.r.TS.DispatchEvent(packager.Package{
			Head: packager.Head{Event: packager.Type.Session.Type, User: "alice"},
			Body: packager.Body{SubEvent: packager.Type.Session.Input, Info: map[string]any{"DemonID": w.sim.Hex(), "CommandID": "Teamserver", "Command": "task::list",
				"TaskID": fmt.Sprintf("%08X", w.next), "CommandLine": "task list"}}})
		c.Observe("chunk.task-list-while-queued", 1)
	}
	var got []byte
	var fileID uint32
	seenChunk := false
	chunks := 0
	for round := 0; round < 16; round++ {
		resp, tasks, ok := w.sim.Checkin(w.h.GinEngine)
		if resp.Panic != nil {
			return lib.PanicSig(resp.Panic, resp.Stack), fmt.Sprintf("check-in panics: %v", resp.Panic)
		}
		if !ok {
			return "chunk:response-not-a-task-stream", "check-in response undecodable"
		}
		if len(tasks) == 1 && tasks[0].Cmd == demon.CmdNoJob {
			return "chunk:command-never-delivered:" + sizeClass(cs.Size), fmt.Sprintf("file of %d bytes: queue ran empty before the upload command arrived (%d chunks, %d bytes seen)", cs.Size, chunks, len(got))
		}
		for _, t := range tasks {
			switch t.Cmd {
			case demon.CmdMemFile:
				rd := demon.Rd{B: t.Body}
				fid := rd.I32()
				total := rd.I64()
				data := rd.Bytes()
				if rd.Err || len(rd.B) != 0 {
					return "chunk:layout", fmt.Sprintf("MEM_FILE task does not read as [id][i64 total][bytes]: %x…", t.Body[:min(len(t.Body), 32)])
				}
				if seenChunk && fid != fileID {
					return "chunk:file-id-differs", fmt.Sprintf("chunk %d carries file id %#x, earlier chunks %#x", chunks, fid, fileID)
				}
				if total != uint64(cs.Size) {
					return "chunk:total-size:" + sizeClass(cs.Size), fmt.Sprintf("chunk %d announces total size %d, the file has %d bytes", chunks, total, cs.Size)
				}
				if len(data) > maxResp {
					return "chunk:too-big", fmt.Sprintf("chunk %d has %d bytes (> 30 MiB)", chunks, len(data))
				}
				fileID, seenChunk = fid, true
				got = append(got, data...)
				chunks++
			case 15:
				rd := demon.Rd{B: t.Body}
				sub := rd.I32()
				p, _ := rd.WStr()
				mid := rd.I32()
				if rd.Err || sub != 3 {
					return "chunk:upload-layout", fmt.Sprintf("upload task does not read as [3][W path][memfile id]: %x", t.Body)
				}
				if t.ReqID != id {
					return "chunk:request-id", fmt.Sprintf("upload task carries request id %#x, operator was told %#x", t.ReqID, id)
				}
				if p != path {
					return "chunk:path", fmt.Sprintf("upload path %q, operator gave %q", p, path)
				}
				if !seenChunk {
					return "chunk:command-before-chunks:" + sizeClass(cs.Size), fmt.Sprintf("upload command for a %d byte file arrived before any chunk", cs.Size)
				}
				if mid != fileID {
					return "chunk:memfile-id", fmt.Sprintf("upload command refers to memfile %#x, chunks carry %#x", mid, fileID)
				}
				if !bytes.Equal(got, file) {
					return "chunk:content:" + sizeClass(cs.Size), fmt.Sprintf("chunks concatenate to %d bytes, file has %d; equal prefix %d", len(got), len(file), commonPrefix(got, file))
				}
				c.Observe("chunk.ok."+sizeClass(cs.Size), 1)
				c.Observe("chunk.chunks", int64(chunks))
				// nothing of the file may follow the command
				_, rest, _ := w.sim.Checkin(w.h.GinEngine)
				for _, r := range rest {
					if r.Cmd == demon.CmdMemFile {
						return "chunk:after-command", "a MEM_FILE chunk was delivered after the command that consumes the file"
					}
				}
				return "", ""
			}
		}
	}
	return "chunk:command-never-delivered:" + sizeClass(cs.Size), fmt.Sprintf("file of %d bytes: upload command not delivered within 16 check-ins", cs.Size)
}

func sizeClass(n int) string {
	C := maxResp
	switch {
	case n == 0:
		return "0"
	case n < C-1:
		return "<C-1"
	case n == C-1:
		return "C-1"
	case n == C:
		return "C"
	case n == C+1:
		return "C+1"
	case n < 2*C:
		return "C..2C"
	case n == 2*C:
		return "2C"
	default:
		return ">2C"
	}
}

func commonPrefix(a, b []byte) int {
	n := 0
	for n < len(a) && n < len(b) && a[n] == b[n] {
		n++
	}
	return n
}

// ---- concurrency ----

type hop struct {
	Enq bool
	ID  uint32
	Out []uint32
}

var clock atomic.Int64

func tick() int64 { return clock.Add(1) }

func fifoModel() porcupine.Model {
	return porcupine.Model{
		Init: func() interface{} { return []uint32{} },
		Step: func(state, input, output interface{}) (bool, interface{}) {
			q := state.([]uint32)
			in := input.(hop)
			if in.Enq {
				nq := append(append([]uint32{}, q...), in.ID)
				return true, nq
			}
			out := output.([]uint32)
			if len(out) == 0 {
				return len(q) == 0, q
			}
			if len(out) > len(q) {
				return false, q
			}
			for i := range out {
				if q[i] != out[i] {
					return false, q
				}
			}
			return true, append([]uint32{}, q[len(out):]...)
		},
		Equal: func(a, b interface{}) bool {
			x, y := a.([]uint32), b.([]uint32)
			if len(x) != len(y) {
				return false
			}
			for i := range x {
				if x[i] != y[i] {
					return false
				}
			}
			return true
		},
		DescribeOperation: func(input, output interface{}) string {
			in := input.(hop)
			if in.Enq {
				return fmt.Sprintf("enq(%#x)", in.ID)
			}
			return fmt.Sprintf("deq() -> %x", output)
		},
	}
}

type concCase struct {
	Kind      string `json:"kind"` // "conc"
	Producers int    `json:"producers"`
	PerProd   int    `json:"per_producer"`
	Checkins  int    `json:"checkins"`
	Hook      string `json:"hook"`
}

func runConc(c *lib.Ctx, w *world, cs concCase, agentID uint32) (sig, what string, hist any) {
	sim := rig.NewSim(c.Rng, agentID)
	if resp := sim.Register(w.h.GinEngine); resp.Status != 200 {
		c.Inconclusive("conc: registration failed")
		return
	}
	switch cs.Hook {
	case "yield":
		verifhook.Set("queue.add", runtime.Gosched)
		verifhook.Set("queue.get.writeback", runtime.Gosched)
	case "sleep":
		verifhook.Set("queue.add", func() { time.Sleep(20 * time.Microsecond) })
		verifhook.Set("queue.get.writeback", func() { time.Sleep(50 * time.Microsecond) })
	default:
		verifhook.Set("queue.add", nil)
		verifhook.Set("queue.get.writeback", nil)
	}
	defer verifhook.Set("queue.add", nil)
	defer verifhook.Set("queue.get.writeback", nil)

	var mu sync.Mutex
	var ops []porcupine.Operation
	rec := func(client int, in hop, out []uint32, call, ret int64) {
		mu.Lock()
		ops = append(ops, porcupine.Operation{ClientId: client, Input: in, Call: call, Output: out, Return: ret})
		mu.Unlock()
	}
	var wg sync.WaitGroup
	base := uint32(0x1000)
	start := make(chan struct{})
	for p := 0; p < cs.Producers; p++ {
		wg.Add(1)
		go func(p int) {
			defer wg.Done()
			<-start
			for k := 0; k < cs.PerProd; k++ {
				id := base + uint32(p*1000+k)
				t0 := tick()
				rig.Task(w.r.TS, sim.Hex(), 11, id, map[string]any{"Arguments": "5;5"})
				rec(p, hop{Enq: true, ID: id}, nil, t0, tick())
			}
		}(p)
	}
	var panicked atomic.Value
	wg.Add(1)
	go func() {
		defer wg.Done()
		<-start
		for k := 0; k < cs.Checkins; k++ {
			t0 := tick()
			resp, tasks, ok := sim.Checkin(w.h.GinEngine)
			t1 := tick()
			if resp.Panic != nil {
				panicked.Store(fmt.Sprintf("%v\n%s", resp.Panic, resp.Stack))
				return
			}
			if !ok {
				continue
			}
			var out []uint32
			for _, t := range tasks {
				if t.Cmd != demon.CmdNoJob {
					out = append(out, t.ReqID)
				}
			}
			rec(99, hop{}, out, t0, t1)
		}
	}()
	close(start)
	wg.Wait()
	if p := panicked.Load(); p != nil {
		return "conc:panic", "check-in panicked during concurrent enqueue: " + p.(string), nil
	}
	// quiescent drain
	for k := 0; k < cs.Producers*cs.PerProd+2; k++ {
		t0 := tick()
		_, tasks, ok := sim.Checkin(w.h.GinEngine)
		if !ok {
			break
		}
		var out []uint32
		for _, t := range tasks {
			if t.Cmd != demon.CmdNoJob {
				out = append(out, t.ReqID)
			}
		}
		rec(99, hop{}, out, t0, tick())
		if len(out) == 0 {
			break
		}
	}
	// exactly once
	seen := map[uint32]int{}
	for _, o := range ops {
		if !o.Input.(hop).Enq {
			for _, id := range o.Output.([]uint32) {
				seen[id]++
			}
		}
	}
	describe := func() any {
		var l []string
		for _, o := range ops {
			in := o.Input.(hop)
			if in.Enq {
				l = append(l, fmt.Sprintf("[%d,%d] c%d enq(%#x)", o.Call, o.Return, o.ClientId, in.ID))
			} else {
				l = append(l, fmt.Sprintf("[%d,%d] deq -> %x", o.Call, o.Return, o.Output))
			}
		}
		return l
	}
	for p := 0; p < cs.Producers; p++ {
		for k := 0; k < cs.PerProd; k++ {
			id := base + uint32(p*1000+k)
			switch seen[id] {
			case 1:
			case 0:
				return "conc:task-lost", fmt.Sprintf("task %#x was enqueued (the operator call returned) but never delivered, also not by the final drain", id), describe()
			default:
				return "conc:task-duplicated", fmt.Sprintf("task %#x was delivered %d times", id, seen[id]), describe()
			}
		}
	}
	res, _ := porcupine.CheckOperationsVerbose(fifoModel(), ops, 20*time.Second)
	switch res {
	case porcupine.Illegal:
		return "conc:not-linearizable", "the recorded enqueue/check-in history is not linearizable against a FIFO queue with prefix-batch dequeue", describe()
	case porcupine.Unknown:
		c.Inconclusive("porcupine timed out on a history of " + fmt.Sprint(len(ops)) + " operations")
	default:
		c.Observe("conc.linearizable", 1)
	}
	c.Observe("conc.ops", int64(len(ops)))
	return "", "", nil
}

func run(c *lib.Ctx) {
	c.Rule("seq: all sequences of length <= 6 over {enq small, enq big(16 MiB), check-in} (exhaustive) + directed cases (COMMAND_GET_JOB alone / first / last / in the middle of a multi-package request with a task waiting; tasks for a linked agent, which travel wrapped in the parent's queue, against the batch limit) + random sequences (half of them with a linked agent, check-in form random) with size classes {0, 1 KiB, 10 MiB, 30 MiB-64, 30 MiB, 40 MiB}; chunk: uploads of {0, 1, C-1, C, C+1} (+{2C-1, 2C, 2C+1} thorough) bytes, C = 30 MiB; conc: 2-3 operator goroutines x 2-4 enqueues against a consumer doing 3-5 check-ins (+ drain) on one agent, hooks queue.add / queue.get.writeback = none|yield|sleep; distinct = distinct case description (+ history index for conc); non-trivial = at least one task delivered")
	c.Assume("the reference decoder reads the reply as CommandDispatcher does", "the size rule asserted: a reply with more than one task carries less than 30 MiB of task data (a single larger task is delivered alone); maximal batching is not demanded",
		"concurrent histories are stamped at the client boundary (before the call, after the reply) with one atomic counter")
	if c.Replay != nil {
		var k struct {
			Kind string `json:"kind"`
		}
		json.Unmarshal(c.Replay, &k)
		switch k.Kind {
		case "seq":
			var cs seqCase
			json.Unmarshal(c.Replay, &cs)
			c.Eval()
			if s, m := runSeq(c, cs); s != "" {
				c.Violation(s, m, cs)
			}
		case "chunk":
			var cs chunkCase
			json.Unmarshal(c.Replay, &cs)
			c.Eval()
			if s, m := runChunk(c, cs); s != "" {
				c.Violation(s, m, cs)
			}
		case "svc":
			c.Eval()
			if s, m := runSvc(c, 40); s != "" {
				c.Violation(s, m, map[string]any{"kind": "svc", "rounds": 40})
			}
		default:
			c.Inconclusive("concurrent histories are schedule dependent and are not replayed")
		}
		return
	}
	part := os.Getenv("VERIF_PART") // "seq" (plain binary: memory heavy), "conc" (race binary) or "" = both
	if part == "conc" {
		concurrent(c)
		return
	}
	// --- seq exhaustive (big = 16 MiB: two of them reach the limit) ---
	alphabet := []op{{Op: "enq", Size: 0}, {Op: "enq", Size: 16 << 20}, {Op: "checkin"}}
	idx := 0
	var rec func(pre []op, d int)
	rec = func(pre []op, d int) {
		if len(pre) > 0 {
			idx++
			if c.Mine(idx) {
				cs := seqCase{Kind: "seq", Ops: pre}
				b, _ := json.Marshal(cs)
				c.Cur("seq", b)
				c.Eval()
				c.DistinctBytes(b)
				c.Observe("seq.exhaustive", 1)
				if s, m := runSeq(c, cs); s != "" {
					c.Violation(s, m, cs)
				}
			}
		}
		if d == 0 {
			return
		}
		for _, a := range alphabet {
			rec(append(append([]op{}, pre...), a), d-1)
		}
	}
	depth := 5
	if c.Thorough() {
		depth = 6
	}
	rec(nil, depth)
	// --- seq directed: every check-in form with a task waiting (own and linked agent's), and
	// the batch limit over tasks that travel wrapped for the linked agent ---
	var directed []seqCase
	for f := 0; f <= 3; f++ {
		directed = append(directed,
			seqCase{Kind: "seq", Ops: []op{{Op: "enq"}, {Op: "checkin", Form: f}, {Op: "checkin", Form: f}}},
			seqCase{Kind: "seq", Pivot: true, Ops: []op{{Op: "enq", Target: 1}, {Op: "checkin", Form: f}, {Op: "enq"}, {Op: "enq", Target: 1}, {Op: "checkin", Form: f}}})
	}
	big := 16 << 20
	directed = append(directed,
		seqCase{Kind: "seq", Pivot: true, Ops: []op{{Op: "enq", Size: big, Target: 1}, {Op: "enq", Size: big, Target: 1}, {Op: "enq", Size: big, Target: 1}, {Op: "checkin"}, {Op: "checkin"}}},
		seqCase{Kind: "seq", Pivot: true, Ops: []op{{Op: "enq", Size: big, Target: 1}, {Op: "enq", Size: big}, {Op: "enq", Target: 1}, {Op: "checkin", Form: 2}, {Op: "checkin"}}},
		seqCase{Kind: "seq", Pivot: true, Ops: []op{{Op: "enq", Size: 40 << 20, Target: 1}, {Op: "enq", Target: 1}, {Op: "checkin"}, {Op: "checkin", Form: 3}}},
		seqCase{Kind: "seq", Pivot: true, Ops: []op{{Op: "enq", Size: maxResp - 64, Target: 1}, {Op: "enq", Size: 1 << 10, Target: 1}, {Op: "checkin"}, {Op: "checkin"}}})
	for i, cs := range directed {
		if !c.Mine(i) {
			continue
		}
		b, _ := json.Marshal(cs)
		c.Cur("seq", b)
		c.Eval()
		c.DistinctBytes(b)
		c.Observe("seq.directed", 1)
		if s, m := runSeq(c, cs); s != "" {
			c.Violation(s, m, cs)
		}
	}
	// --- seq random with boundary sizes ---
	sizes := []int{0, 0, 0, 1 << 10, 10 << 20, maxResp - 64, maxResp, 40 << 20}
	n := c.N(48, 1500)
	for i := 0; i < n; i++ {
		cs := seqCase{Kind: "seq", Pivot: i%2 == 1}
		for k := 0; k < 3+c.Rng.Intn(8); k++ {
			if c.Rng.Intn(3) == 0 {
				cs.Ops = append(cs.Ops, op{Op: "checkin", Form: c.Rng.Intn(4)})
			} else {
				o := op{Op: "enq", Size: sizes[c.Rng.Intn(len(sizes))]}
				if cs.Pivot && c.Rng.Intn(2) == 0 {
					o.Target = 1
				}
				cs.Ops = append(cs.Ops, o)
			}
		}
		b, _ := json.Marshal(cs)
		c.Cur("seq", b)
		c.Eval()
		c.DistinctBytes(b)
		c.Observe("seq.random", 1)
		c.SampleSome(20, func() any { return cs })
		if s, m := runSeq(c, cs); s != "" {
			c.Violation(s, m, cs)
		}
	}
	// --- a third-party service queues tasks for its agent (one shard) ---
	if c.Mine(7) {
		rounds := 12
		if c.Thorough() {
			rounds = 150
		}
		c.Cur("svc", []byte(`{"kind":"svc"}`))
		c.Eval()
		c.Distinct(fmt.Sprintf("svc/%d", c.Seed))
		if s, m := runSvc(c, rounds); s != "" {
			c.Violation(s, m, map[string]any{"kind": "svc", "rounds": rounds})
		}
	}
	// --- chunking (memory heavy: one size per shard and round) ---
	csizes := []int{0, 1, maxResp - 1, maxResp, maxResp + 1}
	if c.Thorough() {
		csizes = append(csizes, 2*maxResp-1, 2*maxResp, 2*maxResp+1, 12345678)
	}
	ccases := []chunkCase{{Kind: "chunk", Size: 1000, List: true}, {Kind: "chunk", Size: 70000, List: true}, {Kind: "chunk", Size: 0, List: true}}
	for _, sz := range csizes {
		ccases = append(ccases, chunkCase{Kind: "chunk", Size: sz})
	}
	for i, cs := range ccases {
		if !c.Mine(i) {
			continue
		}
		sz := cs.Size
		_ = sz
		b, _ := json.Marshal(cs)
		c.Cur("chunk", b)
		c.Eval()
		c.DistinctBytes(b)
		c.Sample(cs)
		if s, m := runChunk(c, cs); s != "" {
			c.Violation(s, m, cs)
		}
	}
	if part == "" {
		concurrent(c)
	}
}

func concurrent(c *lib.Ctx) {
	w, err := newWorld(c, 0x04060000+uint32(c.Shard))
	if err != nil {
		c.Inconclusive(err.Error())
		return
	}
	defer w.r.Close()
	hooks := []string{"none", "yield", "sleep"}
	m := c.N(4000, 200000)
	for i := 0; i < m; i++ {
		cs := concCase{Kind: "conc", Producers: 2 + c.Rng.Intn(2), PerProd: 2 + c.Rng.Intn(3), Checkins: 3 + c.Rng.Intn(3), Hook: hooks[i%3]}
		b, _ := json.Marshal(cs)
		c.Cur("conc", b)
		c.Eval()
		c.Distinct(fmt.Sprintf("conc/%d/%d/%s", c.Shard, i, b))
		c.Observe("conc.histories", 1)
		if s, what, hist := runConc(c, w, cs, 0x60000000+uint32(c.Shard)<<16+uint32(i)); s != "" {
			c.Violation(s, what, map[string]any{"kind": "conc", "case": cs, "history": hist})
		}
	}
	c.Observe("hook.queue.add.hits", verifhook.Hits("queue.add"))
	c.Observe("hook.queue.get.writeback.hits", verifhook.Hits("queue.get.writeback"))
}
