// Package c04 holds the workload and monitor for property C04 (see /verif/DESIGN.md §3).
package c04
