package c04

import (
	"bytes"
	"encoding/base64"
	"fmt"
	"time"

	"verifh/lib"
	"verifh/rig"
	"verifh/svcclient"
)

// ---- tasks queued by a third-party service for its agent ----
//
// A service script queues tasks for an agent of its own type ("AgentTask" / "Add") and
// fetches the queue when the agent calls home ("Get"): one connection, messages in send
// order. What "Get" returns is the concatenation of the queued payloads: in the order they
// were added, each once. Adds of very different sizes follow each other directly, so that
// whatever work an Add needs before it reaches the queue takes very different time.

func runSvc(c *lib.Ctx, rounds int) (sig, what string) {
	r, err := rig.New(rig.Options{Full: true, Service: true})
	if err != nil {
		c.Inconclusive("svc: " + err.Error())
		return
	}
	defer r.Close()
	sc, err := svcclient.Connect(fmt.Sprintf("127.0.0.1:%d", r.Port), "service-endpoint", "service-pw", "c04svc")
	if err != nil {
		c.Inconclusive("svc: " + err.Error())
		return
	}
	defer sc.Close()
	sc.RegisterAgent("Talon", "0x41414141")
	for i := 0; i < 300 && len(r.TS.Service.Agents) == 0; i++ {
		time.Sleep(10 * time.Millisecond)
	}
	const id = "5c04a001"
	sc.SendJSON(map[string]any{"Head": map[string]any{"Type": "Agent"}, "Body": map[string]any{"Type": "AgentRegister",
		"AgentHeader": map[string]any{"Size": "10", "MagicValue": "41414141", "AgentID": id},
		"RegisterInfo": map[string]any{"Hostname": "h", "Username": "u", "Domain": "d", "InternalIP": "1.1.1.1", "Process Path": "/bin/x",
			"Process Name": "x", "Process Arch": "x64", "Process ID": "1", "Process Parent ID": "1", "Process Elevated": "0",
			"OS Version": "10.0.1.0.19045", "OS Build": "1", "OS Arch": "x64", "SleepDelay": 1}}})
	for i := 0; i < 500 && len(r.TS.Agents.Agents) == 0; i++ {
		time.Sleep(10 * time.Millisecond)
	}
	if len(r.TS.Agents.Agents) != 1 {
		c.Inconclusive("svc: the service agent was not registered")
		return
	}
	agent := map[string]any{"NameID": r.TS.Agents.Agents[0].NameID}
	seq := 0
	for round := 0; round < rounds; round++ {
		var want []byte
		n := 2 + c.Rng.Intn(3)
		for k := 0; k < n; k++ {
			seq++
			size := 24
			if (k+round)%2 == 0 {
				size = (1 + c.Rng.Intn(3)) << 20
			}
			p := bytes.Repeat([]byte{byte('a' + seq%26)}, size)
			copy(p, fmt.Sprintf("<T%06d:%d>", seq, size))
			want = append(want, p...)
			if err := sc.SendJSON(map[string]any{"Head": map[string]any{"Type": "Agent"}, "Body": map[string]any{"Type": "AgentTask",
				"Agent": agent, "Task": "Add", "Command": base64.StdEncoding.EncodeToString(p)}}); err != nil {
				c.Inconclusive("svc: send failed: " + err.Error())
				return
			}
		}
		from := len(sc.Msgs())
		sc.SendJSON(map[string]any{"Head": map[string]any{"Type": "Agent"}, "Body": map[string]any{"Type": "AgentTask", "Agent": agent, "Task": "Get"}})
		seen := 0
		m, ok := sc.WaitFor(func(m svcclient.Msg) bool {
			seen++
			_, has := m.Body["TasksQueue"]
			return seen > from && has
		}, 30*time.Second)
		if !ok {
			c.Inconclusive("svc: no answer to AgentTask/Get within 30 s")
			return
		}
		got, _ := base64.StdEncoding.DecodeString(fmt.Sprint(m.Body["TasksQueue"]))
		c.Observe("svc.rounds", 1)
		c.Observe("svc.tasks", int64(n))
		if !bytes.Equal(got, want) {
			tags := func(b []byte) (out []string) {
				for i := 0; i+9 < len(b); i++ {
					if b[i] == '<' && b[i+1] == 'T' {
						out = append(out, string(b[i:i+9]))
					}
				}
				return
			}
			return "svc:queue-order-or-content", fmt.Sprintf("round %d: a service added tasks %v over one connection, the next Get returned %v (%d bytes, expected %d)", round, tags(want), tags(got), len(got), len(want))
		}
	}
	return "", ""
}
