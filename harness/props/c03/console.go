package c03

import (
	"encoding/base64"
	"encoding/json"
	"fmt"
	"strings"

	"Havoc/pkg/handlers"

	"verifh/demon"
	"verifh/lib"
	"verifh/model"
	"verifh/rig"
)

type caseB struct {
	Kind  string         `json:"kind"` // "B"
	Inst  model.Instance `json:"inst"`
	Class int            `json:"class"`
	Agent uint32         `json:"agent"`
}

type envB struct {
	r   *rig.Rig
	h   *handlers.HTTP
	rec *rig.Recorder
	sim *rig.Sim
	req uint32
}

func newEnvB(c *lib.Ctx, agentID uint32) (*envB, error) {
	r, err := rig.New(rig.Options{})
	if err != nil {
		return nil, err
	}
	h, err := r.StartHTTP(handlers.HTTPConfig{Name: "c03"})
	if err != nil {
		return nil, err
	}
	rec := rig.NewRecorder(r.TS)
	h.Teamserver = rec
	e := &envB{r: r, h: h, rec: rec, sim: rig.NewSim(c.Rng, agentID), req: 0x1000}
	if resp := e.sim.Register(h.GinEngine); resp.Status != 200 {
		return nil, fmt.Errorf("registration of the simulated agent failed: %d %v", resp.Status, resp.Panic)
	}
	rec.Take()
	return e, nil
}

// intForms lists the spellings under which an integer may legitimately be shown.
func intForms(v uint64, width int) []string {
	f := []string{fmt.Sprintf("%d", v), fmt.Sprintf("%x", v), fmt.Sprintf("%X", v)}
	if width == 32 {
		f = append(f, fmt.Sprintf("%d", int32(uint32(v))))
	} else {
		f = append(f, fmt.Sprintf("%d", int64(v)))
	}
	return f
}

func outputText(effects []rig.Effect, agent string) (string, int) {
	var sb strings.Builder
	n := 0
	for _, e := range effects {
		if e.Call != "AgentConsole" || e.Agent != agent {
			continue
		}
		n++
		for k, v := range e.Output {
			sb.WriteString(k)
			sb.WriteString("=")
			sb.WriteString(v)
			sb.WriteString("\n")
			if k == "MiscData" || k == "MiscData2" {
				for _, part := range strings.Split(v, ";") {
					if d, err := base64.StdEncoding.DecodeString(part); err == nil {
						sb.Write(d)
						sb.WriteString("\n")
					}
				}
			}
		}
	}
	return sb.String(), n
}

func (e *envB) runB(c *lib.Ctx, cs caseB) (sig, what string) {
	l := model.LayoutByName(cs.Inst.Layout)
	if l == nil {
		return "", ""
	}
	e.req++
	req := e.req
	if !l.NoTask {
		rig.TaskSimple(e.r.TS, e.sim.Hex(), req)
		if resp, _, ok := e.sim.Checkin(e.h.GinEngine); !ok {
			return "B:harness:take-task", fmt.Sprintf("check-in to take the task failed: %d %v", resp.Status, resp.Panic)
		}
	}
	e.rec.Take()
	resp, _, _ := e.sim.Checkin(e.h.GinEngine, demon.Callback{Cmd: l.Cmd, ReqID: req, Body: cs.Inst.Body()})
	if resp.Panic != nil {
		return lib.PanicSig(resp.Panic, resp.Stack), fmt.Sprintf("callback %s panics: %v", l.Name, resp.Panic)
	}
	if resp.Status != 200 {
		return "console:callback-rejected:" + l.Name, fmt.Sprintf("valid callback %s answered with status %d", l.Name, resp.Status)
	}
	text, calls := outputText(e.rec.Take(), e.sim.Hex())
	cls := []string{"ascii", "bmp", "astral"}[cs.Class]
	for i, f := range l.Fields {
		if !f.M || !f.Show {
			continue
		}
		v := cs.Inst.Vals[i]
		switch f.K {
		case "w", "s":
			if !strings.Contains(text, v.S) {
				kcls := cls
				if f.K == "s" && cs.Class == int(model.Astral) {
					kcls = "astral" // UTF-8 passes through C strings untouched
				}
				if calls == 0 {
					return fmt.Sprintf("console:none:%s", l.Name), fmt.Sprintf("callback %s produced no console message at all (field %d %q)", l.Name, i, v.S)
				}
				return fmt.Sprintf("console:marker-missing:%s:%s:%s", f.K, kcls, l.Name),
					fmt.Sprintf("callback %s field %d: sent %q, console shows %q", l.Name, i, v.S, clip(text, 300))
			}
		default:
			width := 32
			if f.K == "i64" || f.K == "ptr" {
				width = 64
			}
			found := false
			for _, form := range intForms(v.U, width) {
				if strings.Contains(text, form) {
					found = true
					break
				}
			}
			if !found {
				if calls == 0 {
					return fmt.Sprintf("console:none:%s", l.Name), fmt.Sprintf("callback %s produced no console message at all", l.Name)
				}
				return fmt.Sprintf("console:marker-missing:%s:%s", f.K, l.Name),
					fmt.Sprintf("callback %s field %d: sent %d (%#x), console shows %q", l.Name, i, v.U, v.U, clip(text, 300))
			}
		}
	}
	return "", ""
}

func clip(s string, n int) string {
	if len(s) > n {
		return s[:n] + "…"
	}
	return s
}

func consoleB(c *lib.Ctx) {
	e, err := newEnvB(c, 0x0b0b0000+uint32(c.Shard))
	if err != nil {
		c.Inconclusive("B: " + err.Error())
		return
	}
	defer e.r.Close()
	reps := 2
	if c.Thorough() {
		reps = 40
	}
	idx := 0
	for rep := 0; rep < reps; rep++ {
		for li := range model.Layouts {
			for cls := 0; cls < 3; cls++ {
				idx++
				if !c.Mine(idx) {
					continue
				}
				l := &model.Layouts[li]
				cs := caseB{Kind: "B", Inst: model.Instantiate(l, c.Rng, model.TextClass(cls)), Class: cls, Agent: e.sim.ID}
				b, _ := json.Marshal(cs)
				c.Cur("B", b)
				c.Eval()
				c.DistinctBytes(b)
				c.Observe("B.layout."+l.Name, 1)
				c.SampleSome(200, func() any { return cs })
				if sig, what := e.runB(c, cs); sig != "" {
					c.Violation(sig, what, cs)
				}
			}
		}
	}
}
