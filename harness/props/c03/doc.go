// Package c03 holds the workload and monitor for property C03 (see /verif/DESIGN.md §3).
package c03
