package c03

import (
	"bytes"
	"encoding/binary"
	"encoding/json"
	"fmt"
	"strings"

	"Havoc/pkg/agent"
	"Havoc/pkg/handlers"

	"verifh/demon"
	"verifh/lib"
	"verifh/rig"
)

// stepC is one step of a registration history.
type stepC struct {
	Op     string `json:"op"`     // reg | rereg | reg-hdr0 | reg-mismatch | checkin-same | checkin-other | getjob | exit
	Agent  int    `json:"agent"`  // index into the history's agent list
	Other  int    `json:"other"`  // second agent index (checkin-other / reg-mismatch)
}

type caseC struct {
	Kind    string   `json:"kind"` // "C"
	IDs     []uint32 `json:"ids"`
	ZeroKey []bool   `json:"zero_key"`
	Text    int      `json:"text"` // text class of metadata strings
	Steps   []stepC  `json:"steps"`
	Seed    int64    `json:"seed"`
}

var idPool = []uint32{1, 2, 0x7fffffff, 0x80000000, 0x80000001, 0xffffffff, 0x00abcdef, 0x12345678, 0xdeadbeef}

func metaEqual(a *agent.Agent, m *demon.Meta) (string, bool) {
	i := a.Info
	chk := func(name string, got, want any) (string, bool) {
		if fmt.Sprint(got) != fmt.Sprint(want) {
			return fmt.Sprintf("%s: sent %q recorded %q", name, fmt.Sprint(want), fmt.Sprint(got)), false
		}
		return "", true
	}
	for _, t := range []struct {
		n    string
		g, w any
	}{
		{"Hostname", i.Hostname, m.Hostname}, {"Username", i.Username, m.Username}, {"DomainName", i.DomainName, m.Domain},
		{"InternalIP", i.InternalIP, m.InternalIP}, {"ProcessPath", i.ProcessPath, m.ProcessPath},
		{"ProcessPID", uint32(i.ProcessPID), m.PID}, {"ProcessTID", uint32(i.ProcessTID), m.TID}, {"ProcessPPID", uint32(i.ProcessPPID), m.PPID},
		{"SleepDelay", uint32(i.SleepDelay), m.Sleep}, {"SleepJitter", uint32(i.SleepJitter), m.Jitter},
		{"KillDate", uint64(i.KillDate), m.KillDate}, {"WorkingHours", uint32(i.WorkingHours), m.WorkingHours}, {"BaseAddress", uint64(i.BaseAddress), m.BaseAddr},
	} {
		if s, ok := chk(t.n, t.g, t.w); !ok {
			return s, false
		}
	}
	pn := m.ProcessPath
	if k := strings.LastIndex(pn, "\\"); k >= 0 {
		pn = pn[k+1:]
	}
	if i.ProcessName != pn {
		return fmt.Sprintf("ProcessName: expected %q recorded %q", pn, i.ProcessName), false
	}
	return "", true
}

func metaText(cls int, tag string) string {
	switch cls {
	case 1:
		return tag + "-é日ж"
	case 2:
		return tag + "-😀𝔘"
	}
	return tag
}

func runC(c *lib.Ctx, cs caseC) (sig, what string) {
	r, err := rig.New(rig.Options{})
	if err != nil {
		c.Inconclusive("C: " + err.Error())
		return "", ""
	}
	defer r.Close()
	h, err := r.StartHTTP(handlers.HTTPConfig{Name: "c03c"})
	if err != nil {
		c.Inconclusive("C: " + err.Error())
		return "", ""
	}
	rng := newRand(cs.Seed)
	sims := make([]*rig.Sim, len(cs.IDs))
	for i, id := range cs.IDs {
		sims[i] = rig.NewSim(rng, id)
		if cs.ZeroKey[i] {
			sims[i].Key = make([]byte, 32)
		}
		sims[i].Meta.Hostname = metaText(cs.Text, fmt.Sprintf("H%d", i))
		sims[i].Meta.Username = metaText(cs.Text, fmt.Sprintf("U%d", i))
		sims[i].Meta.ProcessPath = "C:\\dir\\" + metaText(cs.Text, fmt.Sprintf("p%d", i)) + ".exe"
		sims[i].Meta.KillDate = uint64(0x01d9000000000000) + uint64(i)
		sims[i].Meta.WorkingHours = 0x00410fc0 + uint32(i)
	}
	registered := map[int]bool{} // index -> first registration acknowledged
	req := uint32(0x5000)
	tcls := []string{"ascii", "bmp", "astral"}[cs.Text]

	invariants := func(step int, op string) (string, string) {
		seen := map[string]int{}
		for _, a := range r.TS.Agents.Agents {
			seen[a.NameID]++
		}
		for id, n := range seen {
			if n > 1 {
				return "session:duplicate-id:after-" + op, fmt.Sprintf("step %d (%s): %d sessions share id %s", step, op, n, id)
			}
		}
		want := 0
		for i := range sims {
			if !registered[i] {
				continue
			}
			want++
			var found *agent.Agent
			for _, a := range r.TS.Agents.Agents {
				if a.NameID == sims[i].Hex() {
					found = a
				}
			}
			if found == nil {
				return "session:id-changed-or-lost:after-" + op, fmt.Sprintf("step %d (%s): no session with id %s any more; table=%v", step, op, sims[i].Hex(), keys(seen))
			}
			if !bytes.Equal(found.Encryption.AESKey, sims[i].Key) || !bytes.Equal(found.Encryption.AESIv, sims[i].IV) {
				return "session:key-changed:after-" + op, fmt.Sprintf("step %d (%s): session %s key/iv differ from the registered ones", step, op, sims[i].Hex())
			}
			if s, ok := metaEqual(found, &sims[i].Meta); !ok {
				return "session:metadata:" + strings.SplitN(s, ":", 2)[0] + ":" + tcls, fmt.Sprintf("step %d (%s): session %s %s", step, op, sims[i].Hex(), s)
			}
		}
		if len(r.TS.Agents.Agents) != want {
			return "session:count:after-" + op, fmt.Sprintf("step %d (%s): %d sessions, %d distinct agents registered; table=%v", step, op, len(r.TS.Agents.Agents), want, keys(seen))
		}
		return "", ""
	}

	for si, st := range cs.Steps {
		s := sims[st.Agent]
		switch st.Op {
		case "reg", "rereg":
			resp := s.Register(h.GinEngine)
			if resp.Panic != nil {
				return lib.PanicSig(resp.Panic, resp.Stack), fmt.Sprintf("step %d: registration of %s panics: %v", si, s.Hex(), resp.Panic)
			}
			if resp.Status != 200 {
				return "register:rejected:" + idClass(s.ID), fmt.Sprintf("step %d: valid registration of %s answered %d", si, s.Hex(), resp.Status)
			}
			plain := resp.Body
			if !allZero(s.Key) {
				plain = demon.CTR(s.Key, s.IV, resp.Body)
			}
			if len(plain) != 4 || binary.LittleEndian.Uint32(plain) != s.ID {
				return "register:reply", fmt.Sprintf("step %d: registration reply of %s decrypts to %x, expected the id little-endian", si, s.Hex(), plain)
			}
			registered[st.Agent] = true
		case "reg-hdr0":
			// header agent id 0, inner id = the agent's: the session (if one is created) must
			// carry the sender's id and must not duplicate an existing one
			resp := rig.Post(h.GinEngine, "/", demon.Register(0, s.Key, s.IV, &s.Meta), nil)
			if resp.Panic != nil {
				return lib.PanicSig(resp.Panic, resp.Stack), fmt.Sprintf("step %d: registration (header id 0) panics: %v", si, resp.Panic)
			}
			if resp.Status == 200 {
				registered[st.Agent] = true
			}
		case "reg-mismatch":
			o := sims[st.Other]
			m := s.Meta
			resp := rig.Post(h.GinEngine, "/", demon.Register(o.ID^0x00100000, s.Key, s.IV, &m), nil)
			if resp.Panic != nil {
				return lib.PanicSig(resp.Panic, resp.Stack), fmt.Sprintf("step %d: registration (header id != inner id) panics: %v", si, resp.Panic)
			}
			if resp.Status == 200 {
				return "register:accepted-mismatched-id", fmt.Sprintf("step %d: registration with header id %08x and inner id %s accepted", si, o.ID^0x00100000, s.Hex())
			}
		case "getjob":
			if !registered[st.Agent] {
				continue
			}
			resp, _, ok := s.Checkin(h.GinEngine)
			if resp.Panic != nil {
				return lib.PanicSig(resp.Panic, resp.Stack), fmt.Sprintf("step %d: check-in panics: %v", si, resp.Panic)
			}
			if !ok {
				return "checkin:rejected:" + idClass(s.ID), fmt.Sprintf("step %d: check-in of registered agent %s answered %d", si, s.Hex(), resp.Status)
			}
		case "exit":
			// the session dies (final COMMAND_EXIT callback); it stays in the table, and its
			// id is still taken: a later registration with it must not add a second session
			if !registered[st.Agent] {
				continue
			}
			req++
			rig.TaskSimple(r.TS, s.Hex(), req)
			s.Checkin(h.GinEngine)
			var p demon.Pkg
			p.I32(uint32(1 + st.Other%2))
			resp, _, _ := s.Checkin(h.GinEngine, demon.Callback{Cmd: 92, ReqID: req, Body: p.B})
			if resp.Panic != nil {
				return lib.PanicSig(resp.Panic, resp.Stack), fmt.Sprintf("step %d: COMMAND_EXIT callback panics: %v", si, resp.Panic)
			}
			for _, a := range r.TS.Agents.Agents {
				if a.NameID == s.Hex() && !a.Active {
					c.Observe("C.session-dead-after-exit", 1)
				}
			}
		case "checkin-same", "checkin-other":
			if !registered[st.Agent] {
				continue
			}
			req++
			rig.TaskSimple(r.TS, s.Hex(), req)
			s.Checkin(h.GinEngine)
			m := s.Meta
			if st.Op == "checkin-other" {
				m.AgentID = sims[st.Other].ID ^ 0x00000100
			}
			var p demon.Pkg
			p.Pad(s.Key).Pad(s.IV).Pad(m.MetaBody())
			resp, _, _ := s.Checkin(h.GinEngine, demon.Callback{Cmd: demon.CmdCheckin, ReqID: req, Body: p.B})
			if resp.Panic != nil {
				return lib.PanicSig(resp.Panic, resp.Stack), fmt.Sprintf("step %d: COMMAND_CHECKIN callback panics: %v", si, resp.Panic)
			}
		}
		if sig, what := invariants(si, st.Op); sig != "" {
			return sig, what
		}
	}
	return "", ""
}

func keys(m map[string]int) []string {
	var k []string
	for s := range m {
		k = append(k, s)
	}
	return k
}

func allZero(b []byte) bool {
	for _, x := range b {
		if x != 0 {
			return false
		}
	}
	return true
}

func idClass(id uint32) string {
	switch {
	case id == 0:
		return "id=0"
	case id >= 0x80000000:
		return "id>=2^31"
	default:
		return "id<2^31"
	}
}

func registerC(c *lib.Ctx) {
	ops := []string{"reg", "rereg", "reg-hdr0", "reg-mismatch", "checkin-same", "checkin-other", "getjob", "exit", "rereg"}
	n := c.N(160, 8000)
	for i := 0; i < n; i++ {
		cs := caseC{Kind: "C", Seed: c.Rng.Int63(), Text: c.Rng.Intn(3)}
		na := 1 + c.Rng.Intn(3)
		perm := c.Rng.Perm(len(idPool))
		for k := 0; k < na; k++ {
			id := idPool[perm[k]]
			if c.Rng.Intn(3) == 0 {
				id = c.Rng.Uint32() | 1
			}
			cs.IDs = append(cs.IDs, id)
			cs.ZeroKey = append(cs.ZeroKey, c.Rng.Intn(6) == 0)
		}
		ns := 2 + c.Rng.Intn(8)
		// every history starts with a plain registration of agent 0
		cs.Steps = append(cs.Steps, stepC{Op: "reg", Agent: 0})
		for k := 0; k < ns; k++ {
			cs.Steps = append(cs.Steps, stepC{Op: ops[c.Rng.Intn(len(ops))], Agent: c.Rng.Intn(na), Other: c.Rng.Intn(na)})
		}
		b, _ := json.Marshal(cs)
		c.Cur("C", b)
		c.Eval()
		c.DistinctBytes(b)
		c.SampleSome(50, func() any { return cs })
		for _, s := range cs.Steps {
			c.Observe("C.op."+s.Op, 1)
		}
		if sig, what := runC(c, cs); sig != "" {
			c.Violation(sig, what, cs)
		}
	}
}

func replay(c *lib.Ctx) {
	var k struct {
		Kind string `json:"kind"`
		Hex  string `json:"hex"`
	}
	json.Unmarshal(c.Replay, &k)
	switch k.Kind {
	case "A":
		var cs caseA
		json.Unmarshal(c.Replay, &cs)
		c.Eval()
		if sig, what := checkA(cs); sig != "" {
			c.Violation(sig, what, cs)
		}
	case "A.utf16raw":
		c.Eval()
		utf16raw(c, k.Hex)
	case "B":
		var cs caseB
		json.Unmarshal(c.Replay, &cs)
		e, err := newEnvB(c, cs.Agent)
		if err != nil {
			c.Inconclusive(err.Error())
			return
		}
		defer e.r.Close()
		c.Eval()
		if sig, what := e.runB(c, cs); sig != "" {
			c.Violation(sig, what, cs)
		}
	case "C":
		var cs caseC
		json.Unmarshal(c.Replay, &cs)
		c.Eval()
		if sig, what := runC(c, cs); sig != "" {
			c.Violation(sig, what, cs)
		}
	}
}
