// Package c03: "What an agent reports is what the teamserver records and shows".
//
//	(A) parser.go   reference-encoded buffers -> real parser.Parser, CanIRead exactness
//	(B) console.go  marker values in callbacks -> operator console / session record
//	(C) register.go registration / re-registration / check-in histories -> session table
package c03

import (
	"bytes"
	"encoding/hex"
	"encoding/json"
	"fmt"
	"math/rand"
	"unicode/utf8"

	"Havoc/pkg/common"
	"Havoc/pkg/common/parser"

	"verifh/demon"
	"verifh/lib"
)

func init() { lib.Register("C03", run) }

func run(c *lib.Ctx) {
	c.Rule("A: sequences of typed fields (int32/int64/bool/bytes/pointer/utf16/cstring) over boundary and random values x 0..16 trailing bytes x every truncation, encoded by the reference Demon encoder and read back by the real parser; " +
		"B: one callback per layout carrying unique marker values, sent through a real listener; C: registration histories over boundary agent ids. " +
		"distinct = distinct (type sequence, values, trailing count) / (layout, markers) / history; non-trivial = at least one field resp. one accepted callback resp. two steps")
	c.Assume("reference encoder written from payloads/Demon/src/core/Package.c", "C strings are compared modulo trailing terminators only (domain: no leading NUL; NUL bytes inside the string are part of it)",
		"console markers are looked up in the arguments of AgentConsole at the agent.TeamServer interface (the broadcast path is C11's)")
	if c.Replay != nil {
		replay(c)
		return
	}
	parserA(c)
	consoleB(c)
	registerC(c)
}

// ---------------------------------------------------------------- (A)

type field struct {
	T string `json:"t"` // i32 i64 bool bytes ptr w s
	U uint64 `json:"u,omitempty"`
	B string `json:"b,omitempty"` // hex of raw bytes, or the text for w/s
}

type caseA struct {
	Kind   string  `json:"kind"` // "A"
	Fields []field `json:"fields"`
	Trail  string  `json:"trail"` // hex
}

var boundary32 = []uint64{0, 1, 0x7f, 0x80, 0xff, 0x100, 0x7fffffff, 0x80000000, 0xffffffff, 0x01020304, 0xdeadbeef}
var boundary64 = []uint64{0, 1, 0xffffffff, 0x100000000, 0x7fffffffffffffff, 0x8000000000000000, 0xffffffffffffffff, 0x0102030405060708}

func encodeFields(fs []field) []byte {
	var p demon.Pkg
	for _, f := range fs {
		switch f.T {
		case "i32":
			p.I32(uint32(f.U))
		case "bool":
			p.Bool(f.U != 0)
		case "i64", "ptr":
			p.I64(f.U)
		case "bytes":
			b, _ := hex.DecodeString(f.B)
			p.Bytes(b)
		case "w":
			p.WStr(f.B)
		case "s":
			p.Str(f.B)
		}
	}
	return p.B
}

func readTypes(fs []field) []parser.ReadType {
	var rt []parser.ReadType
	for _, f := range fs {
		switch f.T {
		case "i32":
			rt = append(rt, parser.ReadInt32)
		case "bool":
			rt = append(rt, parser.ReadBool)
		case "i64":
			rt = append(rt, parser.ReadInt64)
		case "ptr":
			rt = append(rt, parser.ReadPointer)
		default:
			rt = append(rt, parser.ReadBytes)
		}
	}
	return rt
}

// checkA runs one case against the real parser and returns (signature, what) of the first
// disagreement, or "".
func checkA(cs caseA) (string, string) {
	enc := encodeFields(cs.Fields)
	trail, _ := hex.DecodeString(cs.Trail)
	buf := append(append([]byte{}, enc...), trail...)
	rt := readTypes(cs.Fields)

	var sig, what string
	pv, stack := lib.Guard(func() {
		p := parser.NewParser(append([]byte{}, buf...))
		if !p.CanIRead(rt) {
			sig, what = "canread:false-on-complete", fmt.Sprintf("CanIRead false although all %d fields (%d bytes) are present, trailing=%d", len(rt), len(enc), len(trail))
			return
		}
		for i, f := range cs.Fields {
			switch f.T {
			case "i32":
				if got := uint32(p.ParseInt32()); got != uint32(f.U) {
					sig, what = fmt.Sprintf("parse:int32:rest%%4=%d", restClass(len(buf), enc, cs.Fields, i, 4)), fmt.Sprintf("field %d int32: sent %#x got %#x", i, uint32(f.U), got)
					return
				}
			case "bool":
				if got := p.ParseBool(); got != (f.U != 0) {
					sig, what = fmt.Sprintf("parse:bool:rest%%4=%d", restClass(len(buf), enc, cs.Fields, i, 4)), fmt.Sprintf("field %d bool: sent %v got %v", i, f.U != 0, got)
					return
				}
			case "i64":
				if got := uint64(p.ParseInt64()); got != f.U {
					sig, what = fmt.Sprintf("parse:int64:rest<16=%v", restClass(len(buf), enc, cs.Fields, i, 8) != 0), fmt.Sprintf("field %d int64: sent %#x got %#x", i, f.U, got)
					return
				}
			case "ptr":
				if got := uint64(p.ParsePointer()); got != f.U {
					sig, what = fmt.Sprintf("parse:pointer:rest<16=%v", restClass(len(buf), enc, cs.Fields, i, 8) != 0), fmt.Sprintf("field %d pointer: sent %#x got %#x", i, f.U, got)
					return
				}
			case "bytes":
				want, _ := hex.DecodeString(f.B)
				if got := p.ParseBytes(); !bytes.Equal(got, want) {
					sig, what = "parse:bytes:"+lenClass(len(want), len(buf), enc, cs.Fields, i), fmt.Sprintf("field %d bytes: sent %d bytes %.40x got %d bytes %.40x", i, len(want), want, len(got), got)
					return
				}
			case "w":
				got := p.ParseUTF16String()
				if got != f.B {
					sig, what = "parse:utf16:"+textClass(f.B)+":"+lenClass(2*len(f.B), len(buf), enc, cs.Fields, i), fmt.Sprintf("field %d utf16: sent %q got %q", i, f.B, got)
					return
				}
			case "s":
				got := p.ParseString()
				if got != f.B {
					sig, what = "parse:cstring:"+lenClass(len(f.B), len(buf), enc, cs.Fields, i), fmt.Sprintf("field %d string: sent %q got %q", i, f.B, got)
					return
				}
			}
		}
		if p.Length() != len(trail) {
			sig, what = "parse:leftover", fmt.Sprintf("after reading all fields %d bytes remain, %d trailing bytes were appended", p.Length(), len(trail))
			return
		}
		// CanIRead must be false for every strict prefix of the field bytes
		// (every cut up to 4 KiB of field bytes; beyond that - long strings - the cuts within
		// 8 bytes of a field boundary and every 509th in between: the loop is quadratic)
		near := map[int]bool{}
		if len(enc) > 4096 {
			var q demon.Pkg
			for _, f := range cs.Fields {
				q.B = append(q.B, encodeFields([]field{f})...)
				for d := -8; d <= 8; d++ {
					near[len(q.B)+d] = true
				}
			}
		}
		for cut := 0; cut < len(enc); cut++ {
			if len(enc) > 4096 && cut > 16 && !near[cut] && cut%509 != 0 {
				continue
			}
			q := parser.NewParser(append([]byte{}, enc[:cut]...))
			if q.CanIRead(rt) {
				sig, what = "canread:true-on-truncated", fmt.Sprintf("CanIRead true for %d of %d field bytes", cut, len(enc))
				return
			}
		}
	})
	if pv != nil {
		return lib.PanicSig(pv, stack), fmt.Sprintf("panic: %v", pv)
	}
	return sig, what
}

// restClass: number of bytes remaining in the buffer after field i, reduced to the class
// that matters for the fixed-width readers (0 = nothing follows, 1..w-1, or w for ">= w").
func restClass(total int, enc []byte, fs []field, i int, w int) int {
	off := len(encodeFields(fs[:i+1]))
	rest := total - off
	if rest >= w {
		return w
	}
	return rest
}

func lenClass(n, total int, enc []byte, fs []field, i int) string {
	off := len(encodeFields(fs[:i+1]))
	rest := total - off
	// the length prefix itself is read by the int32 reader: what follows the prefix is n+rest bytes
	after := n + rest
	switch {
	case after == 0:
		return "after-prefix=0"
	case after < 4:
		return fmt.Sprintf("after-prefix=%d", after)
	default:
		return "after-prefix>=4"
	}
}

func textClass(s string) string {
	astral, bmp := false, false
	for _, r := range s {
		if r > 0xffff {
			astral = true
		} else if r > 0x7f {
			bmp = true
		}
	}
	switch {
	case astral:
		return "astral"
	case bmp:
		return "bmp"
	default:
		return "ascii"
	}
}

var sampleText = []string{"", "a", "ab", "abc", "abcd", "hello world", "C:\\Users\\Admin\\x.txt", "ünïcödé", "日本語テキスト", "emoji😀end", "𝔘𝔫𝔦", "a😀", "\u07ff\u0800\uffff"}

func randText(r *rand.Rand) string {
	if r.Intn(3) == 0 {
		return sampleText[r.Intn(len(sampleText))]
	}
	n := r.Intn(12)
	var rs []rune
	for i := 0; i < n; i++ {
		switch r.Intn(6) {
		case 0:
			rs = append(rs, rune(0x80+r.Intn(0x700)))
		case 1:
			rs = append(rs, rune(0x800+r.Intn(0xd000-0x800)))
		case 2:
			rs = append(rs, rune(0x10000+r.Intn(0xfffff)))
		case 3:
			rs = append(rs, rune(0xe000+r.Intn(0x1ffe)))
		default:
			rs = append(rs, rune(0x21+r.Intn(0x5e)))
		}
	}
	s := string(rs)
	if !utf8.ValidString(s) {
		return "x"
	}
	return s
}

// longText: a string of about 2^k UTF-16 units (k = 8..16, a few units either side) made of
// ASCII with an astral character straddling every 256-unit boundary (high surrogate at unit
// 255, 511, ...) and a few more at random places: a decoder that works in blocks, or with a
// fixed-size buffer, meets a surrogate pair across its block end whatever its block size.
func longText(r *rand.Rand) string {
	units := (1 << (8 + r.Intn(9))) + r.Intn(5) - 2
	rs := make([]rune, 0, units)
	n := 0 // units so far
	off := r.Intn(2) // 0: pairs straddle the boundaries, 1: they end exactly at them
	for n < units {
		switch {
		case (n+1+off)%256 == 0 && n+2 <= units:
			rs = append(rs, rune(0x10000+r.Intn(0xfffff)))
			n += 2
		case r.Intn(97) == 0 && n+2 <= units:
			rs = append(rs, rune(0x1f600+r.Intn(64)))
			n += 2
		case r.Intn(31) == 0:
			rs = append(rs, rune(0x800+r.Intn(0xd000-0x800)))
			n++
		default:
			rs = append(rs, rune('a'+n%26))
			n++
		}
	}
	return string(rs)
}

func randField(r *rand.Rand, kinds []string) field {
	t := kinds[r.Intn(len(kinds))]
	f := field{T: t}
	switch t {
	case "i32":
		if r.Intn(2) == 0 {
			f.U = boundary32[r.Intn(len(boundary32))]
		} else {
			f.U = uint64(r.Uint32())
		}
	case "bool":
		f.U = uint64(r.Intn(2))
	case "i64", "ptr":
		if r.Intn(2) == 0 {
			f.U = boundary64[r.Intn(len(boundary64))]
		} else {
			f.U = r.Uint64()
		}
	case "bytes":
		n := r.Intn(10)
		if r.Intn(20) == 0 {
			n = 200 + r.Intn(5000)
		}
		b := make([]byte, n)
		r.Read(b)
		f.B = hex.EncodeToString(b)
	case "w", "s":
		f.B = randText(r)
		if r.Intn(40) == 0 {
			f.B = longText(r)
		}
		if t == "s" {
			// byte strings shown as text: terminators at either end are stripped by the reader
			// (the domain excludes leading NUL), NUL bytes inside stay (output of a binary
			// file, NUL-separated lists)
			f.B = string(bytes.ReplaceAll([]byte(f.B), []byte{0}, []byte{'0'}))
			if len(f.B) >= 2 && r.Intn(6) == 0 {
				b := []byte(f.B)
				for k := 0; k < 1+r.Intn(3); k++ {
					i := 1 + r.Intn(len(b)-1)
					b = append(b[:i], append([]byte{0}, b[i:]...)...)
				}
				f.B = string(b)
			}
		}
	}
	return f
}

func parserA(c *lib.Ctx) {
	kinds := []string{"i32", "i64", "bool", "bytes", "ptr", "w", "s"}
	base := []string{"i32", "i64", "bool", "bytes", "ptr"}
	report := func(cs caseA) {
		c.Eval()
		b, _ := json.Marshal(cs)
		c.Cur("A", b)
		if len(cs.Fields) > 0 {
			c.DistinctBytes(b)
		}
		if len(b) < 2000 {
			c.SampleSome(20000, func() any { return cs })
		}
		for _, f := range cs.Fields {
			c.Observe("A.field."+f.T, 1)
			if f.T == "s" && bytes.IndexByte([]byte(f.B), 0) > 0 {
				c.Observe("A.field.s-with-NUL-inside", 1)
			}
			if (f.T == "w" || f.T == "s") && len(f.B) > 200 {
				c.Observe("A.field.text>=256-units-with-pairs-at-block-ends", 1)
			}
		}
		if sig, what := checkA(cs); sig != "" {
			c.Violation(sig, what, cs)
		}
	}
	// bounded-exhaustive part: all type sequences of length <= 3 over the five basic read
	// types x boundary values (rotating) x every trailing count 0..16
	idx := 0
	var rec func(prefix []string, depth int)
	rec = func(prefix []string, depth int) {
		if len(prefix) > 0 {
			for trail := 0; trail <= 16; trail++ {
				idx++
				if !c.Mine(idx) {
					continue
				}
				for rep := 0; rep < 3; rep++ {
					cs := caseA{Kind: "A"}
					for k, t := range prefix {
						f := field{T: t}
						switch t {
						case "i32":
							f.U = boundary32[(idx+k+rep*5)%len(boundary32)]
						case "bool":
							f.U = uint64((idx + k + rep) % 2)
						case "i64", "ptr":
							f.U = boundary64[(idx+k+rep*3)%len(boundary64)]
						case "bytes":
							n := (idx + k + rep*4) % 10
							b := make([]byte, n)
							for j := range b {
								b[j] = byte(0xa0 + j)
							}
							f.B = hex.EncodeToString(b)
						}
						cs.Fields = append(cs.Fields, f)
					}
					tb := make([]byte, trail)
					for j := range tb {
						tb[j] = byte(0x11 * (j + 1))
					}
					cs.Trail = hex.EncodeToString(tb)
					report(cs)
				}
			}
		}
		if depth == 3 {
			return
		}
		for _, t := range base {
			rec(append(append([]string{}, prefix...), t), depth+1)
		}
	}
	rec(nil, 0)
	c.Observe("A.exhaustive_type_sequences_len<=3_x_trailing0..16", 1)

	// random part
	n := c.N(120000, 6000000)
	for i := 0; i < n; i++ {
		cs := caseA{Kind: "A"}
		nf := 1 + c.Rng.Intn(12)
		if c.Rng.Intn(4) == 0 {
			nf = 1 + c.Rng.Intn(3)
		}
		for k := 0; k < nf; k++ {
			cs.Fields = append(cs.Fields, randField(c.Rng, kinds))
		}
		tb := make([]byte, c.Rng.Intn(17))
		c.Rng.Read(tb)
		cs.Trail = hex.EncodeToString(tb)
		report(cs)
	}

	// UTF-16 decoding of arbitrary byte strings (odd lengths, lone surrogates) must not panic
	m := c.N(20000, 1000000)
	for i := 0; i < m; i++ {
		b := make([]byte, c.Rng.Intn(9))
		c.Rng.Read(b)
		c.Cur("A.utf16raw", b)
		c.Eval()
		c.Observe("A.utf16raw", 1)
		utf16raw(c, hex.EncodeToString(b))
	}
}

func utf16raw(c *lib.Ctx, hx string) {
	b, _ := hex.DecodeString(hx)
	if pv, stack := lib.Guard(func() { common.DecodeUTF16(b) }); pv != nil {
		cls := "even"
		if len(b)%2 == 1 {
			cls = "odd"
		}
		c.Violation(lib.PanicSig(pv, stack)+":len-"+cls, fmt.Sprintf("DecodeUTF16 panics on %d bytes %x: %v", len(b), b, pv), map[string]any{"kind": "A.utf16raw", "hex": hx})
	}
}

func newRand(seed int64) *rand.Rand { return rand.New(rand.NewSource(seed)) }
