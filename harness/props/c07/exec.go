package c07

import (
	"bytes"
	"encoding/base64"
	"encoding/binary"
	"fmt"
	"net/http/httptest"
	"os"
	"path/filepath"
	"regexp"
	"sort"
	"strconv"
	"strings"
	"time"

	"Havoc/pkg/handlers"
	"Havoc/pkg/packager"
	"Havoc/pkg/service"

	"verifh/demon"
	"verifh/lib"
	"verifh/observe"
	"verifh/rig"
	"verifh/svcclient"
)

const (
	cmdFS         = 15
	cmdBeaconOut  = 94
	cmdScreenshot = 2510
	cbOutput      = 0x00
	cbFile        = 0x02
	cbFileWrite   = 0x08
	cbFileClose   = 0x09
)

var (
	key = bytes.Repeat([]byte{0x41}, 32)
	iv  = bytes.Repeat([]byte{0x42}, 16)
)

// finding is one rule breach observed while a history ran.
type finding struct {
	Sig      string `json:"signature"`
	What     string `json:"what"`
	Op       int    `json:"op"` // index into History.Ops (-1: setup, len: finale)
	Expected string `json:"expected"`
	Observed string `json:"observed"`
}

type env struct {
	c     *lib.Ctx
	r     *rig.Rig
	h     *handlers.HTTP
	sc    *svcclient.Client
	srv   *httptest.Server
	syncN int
	snap  map[string]string
	quiet bool // minimisation / replay re-runs: no counters
	nTask uint32
}

func newEnv(c *lib.Ctx) (*env, error) {
	// Assembled rig (no Start()): the teamserver port chosen by a Full rig is only bound
	// later by Start(), so two workers starting at the same time can end up talking to each
	// other's teamserver. The service endpoint is therefore wired exactly as Start() does
	// (cmd/server/teamserver.go, "if t.Profile.Config.Service != nil") and served by a TLS
	// test server on a port the kernel picks.
	if d := os.Getenv("TMPDIR"); d != "" {
		// check.d points TMPDIR at a tmpfs (every check-in makes sqlite fsync); fall back to
		// the default temp directory where it does not exist
		if fi, err := os.Stat(d); err != nil || !fi.IsDir() {
			os.Unsetenv("TMPDIR")
		}
	}
	r, err := rig.New(rig.Options{Service: true})
	if err != nil {
		return nil, err
	}
	e := &env{c: c, r: r}
	for try := 0; ; try++ {
		e.h, err = r.StartHTTP(handlers.HTTPConfig{Name: fmt.Sprintf("c07-%d", try)})
		if err == nil {
			break
		}
		if try == 5 {
			return nil, err
		}
	}
	ts := r.TS
	if ts.Profile.Config.Service == nil {
		return nil, fmt.Errorf("profile has no Service block")
	}
	ts.Service = service.NewService(ts.Server.Engine)
	ts.Service.Teamserver = ts
	ts.Service.Data.ServerAgents = &ts.Agents
	ts.Service.Config = *ts.Profile.Config.Service
	ts.Service.Start()
	e.srv = httptest.NewTLSServer(ts.Server.Engine)
	e.sc, err = svcclient.Connect(strings.TrimPrefix(e.srv.URL, "https://"), ts.Service.Config.Endpoint, ts.Service.Config.Password, "c07svc")
	if err != nil {
		return nil, err
	}
	e.sc.RegisterAgent("Thirdparty", "0x41414141")
	if !e.sync() {
		return nil, fmt.Errorf("service connection does not answer")
	}
	// global decoys: a sibling of the agents directory sharing its name as prefix, and
	// canary files in every ancestor of the loot tree and outside of it
	for _, d := range []string{lootRun + "/agents2", "outside"} {
		os.MkdirAll(filepath.Join(r.Dir, d), 0o755)
	}
	for _, f := range []string{lootRun + "/agents2/decoy.txt", lootRun + "/canary.txt", "data/loot/canary.txt", "data/canary.txt", "canary.txt", "outside/canary.txt"} {
		os.WriteFile(filepath.Join(r.Dir, f), []byte("canary "+f), 0o644)
	}
	return e, nil
}

// sync waits until the service connection has processed everything sent so far: the
// connection's messages are handled in order by one goroutine, and ListenerAddExC2 is
// always answered.
func (e *env) sync() bool {
	e.syncN++
	_, _, got := e.sc.AddExC2("c07sync", "c07sync", fmt.Sprintf("s%d", e.syncN), 20*time.Second)
	return got
}

func (e *env) obs(k string) {
	if !e.quiet {
		e.c.Observe(k, 1)
	}
}

type change struct {
	path string
	kind string // +d +f ~f - ?
}

// step snapshots the whole temp root and returns what changed since the last snapshot.
func (e *env) step() []change {
	s := e.fssnap()
	var out []change
	for p, v := range s {
		ov, ok := e.snap[p]
		switch {
		case !ok && v == "dir":
			out = append(out, change{p, "+d"})
		case !ok:
			out = append(out, change{p, "+f"})
		case ov == v:
		case ov == "dir" || v == "dir":
			out = append(out, change{p, "?"})
		default:
			out = append(out, change{p, "~f"})
		}
	}
	for p := range e.snap {
		if _, ok := s[p]; !ok {
			out = append(out, change{p, "-"})
		}
	}
	sort.Slice(out, func(i, j int) bool { return out[i].path < out[j].path })
	e.snap = s
	return out
}

func (e *env) resnap() { e.snap = e.fssnap() }

// fssnap lists and hashes the whole temp root. The session database is left out: every
// check-in rewrites the agent's LastCallIn row, so its hash follows the wall clock.
func (e *env) fssnap() map[string]string {
	s := observe.FSSnap(e.r.Dir)
	delete(s, "data/teamserver.db")
	delete(s, "data/teamserver.db-journal")
	return s
}

func expand(t string, self, other, svc string, root string) string {
	if !strings.Contains(t, "{") {
		return t
	}
	t = strings.ReplaceAll(t, "{ID}", self)
	t = strings.ReplaceAll(t, "{OTHER}", other)
	t = strings.ReplaceAll(t, "{SVC}", svc)
	t = strings.ReplaceAll(t, "{ROOT}", root)
	t = strings.ReplaceAll(t, "{L300}", strings.Repeat("A", 300))
	t = strings.ReplaceAll(t, "{L255}", strings.Repeat("B", 255))
	t = strings.ReplaceAll(t, "{L256}", strings.Repeat("C", 256))
	return t
}

var reStarted = regexp.MustCompile(`^\[[0-9/]{10} [0-9:]{8}\] \[\*\] Started download of file: `)

func q(s string) string {
	if len(s) > 120 {
		return strconv.Quote(s[:60]) + "...(" + strconv.Itoa(len(s)) + " bytes)"
	}
	return strconv.Quote(s)
}

func fmtChanges(ch []change) string {
	var sb strings.Builder
	for i, c := range ch {
		if i == 6 {
			fmt.Fprintf(&sb, " ...(%d)", len(ch))
			break
		}
		if i > 0 {
			sb.WriteString(" ")
		}
		p := c.path
		if len(p) > 200 {
			p = p[:200] + "..."
		}
		sb.WriteString(c.kind + strconv.Quote(p))
	}
	if len(ch) == 0 {
		return "no change"
	}
	return sb.String()
}

// runHistory executes one history against the rig and returns every rule breach.
func (e *env) runHistory(h History) (out []finding) {
	root := e.r.Dir
	svcName := fmt.Sprintf("%08x", h.Svc)
	report := func(op int, sig, what, exp, obs string) {
		out = append(out, finding{Sig: sig, What: what, Op: op, Expected: exp, Observed: obs})
	}

	// ---- setup: register agents, decoys, tasks ----
	ags := make([]*agentModel, len(h.Agents))
	for i, as := range h.Agents {
		m := &demon.Meta{AgentID: as.ID, Hostname: as.Host, Username: as.Host, Domain: as.Host, InternalIP: "10.0.0.1",
			ProcessPath: "C:\\x\\" + as.Host, PID: 10, TID: 11, PPID: 12, Arch: 2, Elevated: 1, BaseAddr: 0x7ff000,
			OS: [5]uint32{10, 0, 1, 0, 19045}, OSArch: 9, Sleep: 5, Jitter: 10}
		resp := rig.Post(e.h.GinEngine, "/", demon.Register(as.ID, key, iv, m), nil)
		if resp.Panic != nil {
			report(-1, lib.PanicSig(resp.Panic, resp.Stack), "panic while registering an agent", "registration", fmt.Sprint(resp.Panic))
			return
		}
		a := &agentModel{id: as.ID, name: fmt.Sprintf("%08x", as.ID), gens: map[uint32]int{}, seen: map[string]string{}}
		a.base = agentsDir + "/" + a.name
		ags[i] = a
		// decoys: siblings whose names have the legitimate names as string prefix, and an
		// existing directory inside the download directory
		for _, d := range []string{a.base + "/Download/existingdir", a.base + "/Download2", a.base + "/Downloadx", a.base + "/Screenshots2", a.base + "x"} {
			os.MkdirAll(filepath.Join(root, d), 0o755)
		}
		for _, f := range []string{a.base + "/Download2/decoy.txt", a.base + "/Screenshots2/decoy.txt", a.base + "x/decoy.txt"} {
			os.WriteFile(filepath.Join(root, f), []byte("decoy "+f), 0o644)
		}
	}
	// the third-party agent and its decoys
	e.sc.SendJSON(map[string]any{"Head": map[string]any{"Type": "Agent"}, "Body": map[string]any{"Type": "AgentRegister",
		"AgentHeader": map[string]any{"Size": "10", "MagicValue": "41414141", "AgentID": svcName},
		"RegisterInfo": map[string]any{"Hostname": "h", "Username": "u", "Domain": "d", "InternalIP": "1.1.1.1", "Process Path": "/bin/x",
			"Process Name": "x", "Process Arch": "x64", "Process ID": "1", "Process Parent ID": "1", "Process Elevated": "0",
			"OS Version": "10.0.1.0.19045", "OS Build": "1", "OS Arch": "x64", "SleepDelay": 1}}})
	if !e.sync() {
		report(-1, "harness:service-sync", "service connection stopped answering", "", "")
		return
	}
	svcBase := agentsDir + "/" + svcName
	for _, d := range []string{svcBase + "/Download/existingdir", svcBase + "/Download2", svcBase + "/Downloadx"} {
		os.MkdirAll(filepath.Join(root, d), 0o755)
	}
	os.WriteFile(filepath.Join(root, svcBase+"/Download2/decoy.txt"), []byte("decoy"), 0o644)

	// one outstanding operator task per demon operation (an FS close and a screenshot
	// complete their request id), plus spares for the closing sweep
	need := make([]int, len(ags))
	for _, op := range h.Ops {
		switch op.Kind {
		case "open":
			need[op.Agent] += 2
		case "write", "close", "shot", "output", "transfer":
			need[op.Agent]++
		}
	}
	for i, a := range ags {
		for k := 0; k < need[i]+1; k++ {
			e.nTask++
			tid := e.nTask
			e.r.TS.DispatchEvent(packager.Package{Head: packager.Head{Event: packager.Type.Session.Type, User: "alice"},
				Body: packager.Body{SubEvent: packager.Type.Session.Input, Info: map[string]any{
					"DemonID": a.name, "CommandID": "15", "TaskID": fmt.Sprintf("%08X", tid), "CommandLine": "download x",
					"SubCommand": "download", "Arguments": base64.StdEncoding.EncodeToString([]byte("C:\\x"))}}})
			a.tasks = append(a.tasks, tid)
		}
		// the agent takes its jobs
		rig.Post(e.h.GinEngine, "/", demon.Checkin(a.id, key, iv), nil)
	}
	e.resnap()
	for _, a := range ags {
		a.console, _ = os.ReadFile(filepath.Join(root, a.base, "Console_"+a.name+".log"))
	}
	svcConsoles := map[string][]byte{}

	defer func() {
		// housekeeping: this history's directories leave the tree, so that snapshots stay small
		for _, a := range ags {
			os.RemoveAll(filepath.Join(root, a.base))
			os.RemoveAll(filepath.Join(root, a.base+"x"))
			os.RemoveAll(filepath.Join(root, agentsDir, "u"+a.name))
			os.RemoveAll(filepath.Join(root, agentsDir, "u"+a.name+"x"))
		}
		os.RemoveAll(filepath.Join(root, svcBase))
	}()

	takeTask := func(a *agentModel) uint32 {
		t := a.tasks[0]
		a.tasks = a.tasks[1:]
		return t
	}

	// checkConsole: an agent's console log may only grow; returns the appended text
	checkConsole := func(opi int, a *agentModel, src string) string {
		b, _ := os.ReadFile(filepath.Join(root, a.base, "Console_"+a.name+".log"))
		if !bytes.HasPrefix(b, a.console) {
			report(opi, "console:rewritten:"+src, "the agent's console log lost or changed earlier content",
				fmt.Sprintf("log keeps its first %d bytes", len(a.console)), fmt.Sprintf("log is now %d bytes and differs", len(b)))
		}
		tail := string(b[min(len(a.console), len(b)):])
		a.console = b
		return tail
	}

	post := func(opi int, a *agentModel, cb demon.Callback) bool {
		resp := rig.Post(e.h.GinEngine, "/", demon.Checkin(a.id, key, iv, cb), nil)
		if resp.Panic != nil {
			report(opi, lib.PanicSig(resp.Panic, resp.Stack), "panic in the callback handler", "callback handled", fmt.Sprint(resp.Panic))
			return false
		}
		return true
	}

	// judge applies the containment rules to a set of changes. okFile / okDir say which
	// paths the operation may create or modify; everything else is a breach, classified by
	// where it landed relative to the acting agent.
	judge := func(opi int, ch []change, consolePath, actor, src string, okFile func(p, kind string) bool, okDir func(p string) bool) (files []change) {
		var badFiles, badDirs []change
		for _, c := range ch {
			if c.path == consolePath && (c.kind == "+f" || c.kind == "~f") {
				continue
			}
			switch c.kind {
			case "-", "?":
				report(opi, "removed-or-retyped:"+src, "an existing path disappeared or changed its type", "paths only appear or grow", c.kind+strconv.Quote(c.path))
			case "+d":
				if !okDir(c.path) {
					badDirs = append(badDirs, c)
				}
			default:
				files = append(files, c)
				if !okFile(c.path, c.kind) {
					badFiles = append(badFiles, c)
				}
			}
		}
		area := "only inside " + agentsDir + "/" + actor + "/{Download/**,Screenshots/*} or its console log"
		switch {
		case len(badFiles) > 0:
			// one signature per landing zone of the FILE; directories created on the way
			// belong to the same breach
			report(opi, "escape:"+escapeClass(badFiles[0].path, actor)+":"+src,
				"a file was created or modified outside the acting agent's loot area", area, fmtChanges(ch))
		case len(badDirs) > 0:
			report(opi, "escape-dir:"+src, "a directory was created outside the acting agent's loot area ("+escapeClass(badDirs[0].path, actor)+") although no file left it",
				area, fmtChanges(ch))
		}
		return files
	}

	other := func(i int) string {
		if len(ags) > 1 {
			return ags[(i+1)%len(ags)].name
		}
		return svcName
	}

	doClose := func(opi int, a *agentModel, fid uint32, fam string, reason uint32, src string) {
		var cb demon.Callback
		if fam == "fs" {
			var p demon.Pkg
			p.I32(2).I32(2).I32(fid).I32(reason)
			cb = demon.Callback{Cmd: cmdFS, ReqID: takeTask(a), Body: p.B}
		} else {
			var p demon.Pkg
			p.I32(cbFileClose).Bytes(binary.BigEndian.AppendUint32(nil, fid))
			cb = demon.Callback{Cmd: cmdBeaconOut, ReqID: takeTask(a), Body: p.B}
		}
		if !post(opi, a, cb) {
			return
		}
		ch := e.step()
		checkConsole(opi, a, src)
		// closing never changes file content and creates nothing
		judge(opi, ch, a.base+"/Console_"+a.name+".log", a.name, src,
			func(p, k string) bool { return false }, func(p string) bool { return false })
		op := a.openEntries(fid)
		if len(op) == 0 {
			e.obs("close:unknown-or-closed-id")
			return
		}
		en := op[0]
		en.open = false
		if len(op) > 1 || en.dup {
			e.obs("close:duplicate-id(no content verdict)")
			return
		}
		if en.path == "" {
			e.obs("close:path-unknown(no content verdict)")
			return
		}
		got, err := os.ReadFile(filepath.Join(root, en.path))
		if err == nil && bytes.Equal(got, en.data) {
			e.obs("close:content-verified")
			if len(en.data) > 0 {
				e.obs("close:content-verified-nonempty")
			}
			return
		}
		sig := "content:mismatch"
		what := "a closed download differs from the concatenation of its chunks"
		if en.shared {
			sig = "content:shared-path"
			what = "two transfers open at the same time were given the same local file; the closed download differs from the concatenation of its chunks"
		}
		obs := fmt.Sprintf("%d bytes %s", len(got), sample(got))
		if err != nil {
			obs = err.Error()
		}
		report(opi, sig, what+" (file id "+fmt.Sprintf("%x", fid)+", "+strconv.Quote(en.path)+")",
			fmt.Sprintf("%d bytes %s", len(en.data), sample(en.data)), obs)
	}

	for opi, op := range h.Ops {
		var a *agentModel
		if op.Agent < len(ags) {
			a = ags[op.Agent]
		} else {
			a = ags[0]
		}
		if !e.quiet {
			e.c.Eval()
			st := "-"
			if op.Kind == "open" || op.Kind == "write" || op.Kind == "close" {
				switch n := len(a.openEntries(op.FileID)); {
				case n > 1:
					st = "dup"
				case n == 1:
					st = "open"
				case a.everOpened(op.FileID):
					st = "closed"
				default:
					st = "unknown"
				}
			}
			nopen := 0
			for _, x := range a.entries {
				if x.open {
					nopen++
				}
			}
			e.c.Distinct(fmt.Sprintf("%s|%s|%s|%s|%s|%s|%s|%d|%d", op.Kind, op.Fam, op.Name, op.SvcID, op.Bmp, op.Text, st, len(op.Chunk), nopen))
		}
		name := expand(string(op.Name), a.name, other(op.Agent), svcName, root)
		dl := a.base + "/Download"
		console := a.base + "/Console_" + a.name + ".log"
		switch op.Kind {

		case "open":
			src := "demon-open"
			var cb demon.Callback
			if op.Fam == "fs" {
				var p demon.Pkg
				p.I32(2).I32(0).I32(op.FileID).I64(op.Size).WStr(name)
				cb = demon.Callback{Cmd: cmdFS, ReqID: takeTask(a), Body: p.B}
			} else {
				blob := binary.BigEndian.AppendUint32(nil, op.FileID)
				blob = binary.BigEndian.AppendUint32(blob, uint32(op.Size))
				blob = append(blob, name...)
				var p demon.Pkg
				p.I32(cbFile).Bytes(blob)
				cb = demon.Callback{Cmd: cmdBeaconOut, ReqID: takeTask(a), Body: p.B}
			}
			// pre-state for the pinned layout of benign names
			ref, refOK, refStorable := refPath(dl, strings.Trim(name, "\x00"))
			collision := false
			if refOK && refStorable {
				cs := strings.Split(ref, "/")
				for k := len(strings.Split(dl, "/")) + 1; k <= len(cs); k++ {
					v, ex := e.snap[strings.Join(cs[:k], "/")]
					if ex && ((k < len(cs) && v != "dir") || (k == len(cs) && v == "dir")) {
						collision = true
					}
				}
			}
			if !post(opi, a, cb) {
				continue
			}
			ch := e.step()
			tail := checkConsole(opi, a, src)
			accepted := reStarted.MatchString(tail)
			files := judge(opi, ch, console, a.name, src,
				func(p, k string) bool { return under(p, dl) },
				func(p string) bool { return p == a.base || p == dl || under(p, dl) })
			if len(files) > 1 {
				report(opi, "open:several-files", "one open created or modified more than one file", "at most one file", fmtChanges(ch))
			}
			var qpath string
			if len(files) >= 1 {
				qpath = files[0].path
				if !accepted {
					e.obs("open:file-created-but-no-start-message")
				}
				if sz := e.snap[qpath]; !strings.HasPrefix(sz, "0:") {
					report(opi, "open:file-not-empty", "a file touched by an open is not empty afterwards", "empty file", sz)
				}
			} else if accepted {
				// an existing empty file was re-created: nothing to see in the listing. It is
				// the file an earlier open of the same name produced, else the lexical target.
				if p, ok := a.seen[op.Fam+"|"+name]; ok && strings.HasPrefix(e.snap[p], "0:") {
					qpath = p
				} else if strings.HasPrefix(e.snap[ref], "0:") {
					qpath = ref
				}
				e.obs("open:accepted-over-empty-file")
				if qpath == "" {
					e.obs("open:accepted-path-unknown")
				}
			}
			if qpath != "" {
				a.seen[op.Fam+"|"+name] = qpath
			}
			busy := false // the reference path is the file of a transfer that is still open
			for _, x := range a.entries {
				busy = busy || (x.open && x.path == ref)
			}
			if benign(name) && !collision && !busy {
				switch {
				case !accepted && len(files) == 0:
					report(opi, "open:benign-name-rejected", "a download with a plain file name was not stored",
						"file "+strconv.Quote(ref), "rejected: "+q(tail))
				case qpath != ref:
					report(opi, "open:benign-name-misplaced", "a download with a plain file name was stored under another path",
						"file "+strconv.Quote(ref), strconv.Quote(qpath))
				default:
					e.obs("open:benign-layout-verified")
				}
			}
			if !accepted && len(files) == 0 {
				e.obs("open:rejected")
				if !refOK {
					e.obs("open:rejected-traversal")
				}
				continue
			}
			e.obs("open:accepted")
			if !refOK {
				e.obs("open:accepted-though-reference-rejects")
			}
			en := &entry{fid: op.FileID, path: qpath, open: true, opIdx: opi}
			if qpath != "" && !under(qpath, dl) {
				en.escaped = true
			}
			prev := a.openEntries(op.FileID)
			if len(prev) == 0 {
				a.gens[op.FileID]++
			} else {
				en.dup = true
				for _, p := range prev {
					p.dup = true
				}
				e.obs("open:duplicate-id")
			}
			en.gen = a.gens[op.FileID]
			if qpath != "" {
				for _, o := range a.entries {
					if o.open && o.path == qpath {
						o.shared, en.shared = true, true
						e.obs("open:same-path-as-open-transfer")
					}
				}
			}
			a.entries = append(a.entries, en)

		case "write":
			var cb demon.Callback
			if op.Fam == "fs" {
				var p demon.Pkg
				p.I32(2).I32(1).I32(op.FileID).Bytes(op.Chunk)
				cb = demon.Callback{Cmd: cmdFS, ReqID: takeTask(a), Body: p.B}
			} else {
				var p demon.Pkg
				p.I32(cbFileWrite).Bytes(append(binary.BigEndian.AppendUint32(nil, op.FileID), op.Chunk...))
				cb = demon.Callback{Cmd: cmdBeaconOut, ReqID: takeTask(a), Body: p.B}
			}
			if !post(opi, a, cb) {
				continue
			}
			ch := e.step()
			checkConsole(opi, a, "demon-write")
			opn := a.openEntries(op.FileID)
			tg := a.targets(op.FileID)
			if len(opn) == 0 {
				// unknown or closed id: written nowhere
				state := "unknown-id"
				if a.everOpened(op.FileID) {
					state = "closed-id"
				}
				e.obs("write:" + state)
				var bad []change
				for _, c := range ch {
					if c.path != console {
						bad = append(bad, c)
					}
				}
				if len(bad) > 0 {
					report(opi, "stale-write:"+state, "a chunk for a file id without open transfer changed the loot tree",
						"no change", fmtChanges(bad))
				}
				continue
			}
			e.obs("write:open-id")
			unknownPath := false
			for _, x := range a.entries {
				if x.fid == op.FileID && x.gen == a.gens[op.FileID] && x.path == "" {
					unknownPath = true
				}
			}
			var bad []change
			for _, c := range ch {
				if c.path == console {
					continue
				}
				if (c.kind == "~f" || c.kind == "+f") && tg[c.path] {
					continue
				}
				if unknownPath && c.kind == "~f" && under(c.path, dl) {
					// the transfer's file could not be located at open (see there): a file
					// inside the download directory that belongs to no other transfer is accepted
					owned := false
					for _, x := range a.entries {
						owned = owned || (x.path == c.path && x.fid != op.FileID)
					}
					if !owned {
						e.obs("write:unlocated-transfer")
						continue
					}
				}
				bad = append(bad, c)
			}
			if len(bad) > 0 {
				sig := "write:wrong-target"
				for _, c := range bad {
					for _, oa := range ags {
						for _, oe := range oa.entries {
							if oe.path == c.path && c.path != "" {
								sig = "write:other-transfer-file"
							}
						}
					}
				}
				var tl []string
				for p := range tg {
					tl = append(tl, p)
				}
				sort.Strings(tl)
				report(opi, sig, "a chunk changed something else than the file of its own transfer", "only "+fmt.Sprintf("%q", tl), fmtChanges(bad))
			}
			if len(opn) == 1 && !opn[0].dup {
				opn[0].data = append(opn[0].data, op.Chunk...)
			}

		case "transfer":
			// COMMAND_TRANSFER callbacks (list / stop / resume acknowledged for this file id):
			// bookkeeping only - the loot tree stays as it is, and the transfer goes on
			var p demon.Pkg
			switch op.Reason {
			case 0:
				p.I32(0).I32(op.FileID).I32(10).I32(1)
			case 1:
				p.I32(1).I32(1).I32(op.FileID)
			default:
				p.I32(2).I32(1).I32(op.FileID)
			}
			if !post(opi, a, demon.Callback{Cmd: 2530, ReqID: takeTask(a), Body: p.B}) {
				continue
			}
			ch := e.step()
			checkConsole(opi, a, "transfer-control")
			e.obs(fmt.Sprintf("transfer-control:%d", op.Reason))
			var bad []change
			for _, c := range ch {
				if c.path != console {
					bad = append(bad, c)
				}
			}
			if len(bad) > 0 {
				report(opi, "transfer-control:changed-loot", "the agent's answer to a transfer list/stop/resume command changed the loot tree", "no change", fmtChanges(bad))
			}

		case "close":
			doClose(opi, a, op.FileID, op.Fam, op.Reason, "demon-close")

		case "shot":
			var p demon.Pkg
			switch op.Bmp {
			case "valid":
				p.I32(1).Bytes(tinyBMP())
			case "garbage":
				p.I32(1).Bytes([]byte("BM-not-a-bitmap" + name))
			default:
				p.I32(1).Bytes(nil)
			}
			// a hostile name rides along behind the fields the teamserver reads
			p.Str(name).WStr(name)
			if !post(opi, a, demon.Callback{Cmd: cmdScreenshot, ReqID: takeTask(a), Body: p.B}) {
				continue
			}
			ch := e.step()
			checkConsole(opi, a, "shot")
			sd := a.base + "/Screenshots"
			files := judge(opi, ch, console, a.name, "shot",
				func(p, k string) bool { return under(p, sd) && !strings.Contains(p[len(sd)+1:], "/") },
				func(p string) bool { return p == a.base || p == sd })
			if len(files) > 1 {
				report(opi, "shot:several-files", "one screenshot changed more than one file", "at most one file", fmtChanges(ch))
			}
			e.obs("shot:" + op.Bmp)
			if len(files) > 0 {
				e.obs("shot:file-written")
			}

		case "output":
			var p demon.Pkg
			p.I32(cbOutput).Str(expand(op.Text, a.name, other(op.Agent), svcName, root))
			if !post(opi, a, demon.Callback{Cmd: cmdBeaconOut, ReqID: takeTask(a), Body: p.B}) {
				continue
			}
			ch := e.step()
			checkConsole(opi, a, "output")
			judge(opi, ch, console, a.name, "output",
				func(p, k string) bool { return false }, func(p string) bool { return p == a.base })
			e.obs("output")

		case "svc", "svcout":
			id := expand(op.SvcID, a.name, other(op.Agent), svcName, root)
			plain := id != "" && id != "." && id != ".." && !strings.ContainsAny(id, "/\x00")
			var cbk map[string]any
			if op.Kind == "svc" {
				cbk = map[string]any{"MiscType": "download", "FileName": name, "Content": base64.StdEncoding.EncodeToString(op.Chunk)}
			} else {
				cbk = map[string]any{"Type": "Good", "Message": "m " + op.Text, "Output": expand(op.Text, a.name, other(op.Agent), svcName, root)}
			}
			e.sc.SendJSON(map[string]any{"Head": map[string]any{"Type": "Agent"},
				"Body": map[string]any{"Type": "AgentOutput", "AgentID": id, "Callback": cbk}})
			if !e.sync() || e.sc.Closed() {
				report(opi, "harness:service-sync", "service connection stopped answering", "", "")
				return
			}
			ch := e.step()
			if !plain {
				e.obs(op.Kind + ":crafted-id")
				var bad []change
				bad = append(bad, ch...)
				if len(bad) > 0 {
					cls := escapeClass(bad[0].path, "")
					for _, c := range bad {
						if c.kind != "+d" {
							cls = escapeClass(c.path, "")
							break
						}
					}
					report(opi, "escape:"+cls+":svc-crafted-id", "a service message with a crafted agent id ("+q(id)+") changed the tree",
						"no change: the id names no agent directory", fmtChanges(bad))
				}
				continue
			}
			e.obs(op.Kind + ":plain-id")
			sbase := agentsDir + "/" + id
			sdl := sbase + "/Download"
			scon := sbase + "/Console_" + id + ".log"
			for _, c := range ch {
				if c.path == scon {
					b, _ := os.ReadFile(filepath.Join(root, scon))
					if !bytes.HasPrefix(b, svcConsoles[id]) {
						report(opi, "console:rewritten:svc", "the agent's console log lost or changed earlier content", "append only", "rewritten")
					}
					svcConsoles[id] = b
				}
			}
			src := "svc-download"
			if op.Kind == "svcout" {
				src = "svc-output"
			}
			files := judge(opi, ch, scon, id, src,
				func(p, k string) bool { return op.Kind == "svc" && under(p, sdl) },
				func(p string) bool { return p == sbase || (op.Kind == "svc" && (p == sdl || under(p, sdl))) })
			if len(files) > 1 {
				report(opi, "svc:several-files", "one service download changed more than one file", "at most one file", fmtChanges(ch))
			}
			if op.Kind == "svc" && len(files) == 1 {
				got, err := os.ReadFile(filepath.Join(root, files[0].path))
				if err != nil || !bytes.Equal(got, op.Chunk) {
					report(opi, "svc-content:mismatch", "the stored service download differs from the content sent",
						fmt.Sprintf("%d bytes %s", len(op.Chunk), sample(op.Chunk)), fmt.Sprintf("%d bytes %s", len(got), sample(got)))
				} else {
					e.obs("svc:content-verified")
				}
				// a transfer of a demon agent can never share this file: service ids are
				// third-party ids or u<id>
			}
			if op.Kind == "svc" && benign(name) && !strings.ContainsAny(strings.TrimRight(name, "\x00"), "/\\") {
				// a plain single-component name must be stored as Download/<name>
				want := sdl + "/" + strings.ReplaceAll(name, "\x00", "")
				got, err := os.ReadFile(filepath.Join(root, want))
				if e.snap[want] == "dir" {
					e.obs("svc:name-of-existing-directory")
				} else if err != nil || !bytes.Equal(got, op.Chunk) {
					report(opi, "svc:benign-name-not-stored", "a service download with a plain file name was not stored with its content",
						"file "+strconv.Quote(want)+fmt.Sprintf(" with %d bytes", len(op.Chunk)), fmtChanges(ch))
				} else {
					e.obs("svc:benign-layout-verified")
				}
			}
		}
	}

	// ---- closing sweep: every transfer still open is closed and its content compared ----
	for _, a := range ags {
		for {
			var en *entry
			for _, x := range a.entries {
				if x.open {
					en = x
					break
				}
			}
			if en == nil {
				break
			}
			doClose(len(h.Ops), a, en.fid, "fs", 0, "demon-close")
			if en.open { // cannot happen: doClose closes the first open entry of the id
				en.open = false
			}
		}
	}
	return out
}

func sample(b []byte) string {
	if len(b) > 24 {
		return fmt.Sprintf("%x...", b[:24])
	}
	return fmt.Sprintf("%x", b)
}
