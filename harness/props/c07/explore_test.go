package c07

import (
	"bytes"
	"encoding/base64"
	"fmt"
	"os"
	"sort"
	"testing"
	"time"

	"Havoc/pkg/handlers"
	"Havoc/pkg/packager"

	"verifh/demon"
	"verifh/observe"
	"verifh/rig"
	"verifh/svcclient"
)

func dump(t *testing.T, tag string, a, b map[string]string) {
	d := observe.FSDiff(a, b)
	sort.Strings(d)
	fmt.Println("==", tag, d)
}

func TestExplore(t *testing.T) {
	t0 := time.Now()
	r, err := rig.New(rig.Options{Full: true, Service: true})
	if err != nil {
		t.Fatal(err)
	}
	defer r.Close()
	fmt.Println("rig.New full:", time.Since(t0))
	t0 = time.Now()
	h, err := r.StartHTTP(handlers.HTTPConfig{Name: "l1"})
	if err != nil {
		t.Fatal(err)
	}
	fmt.Println("StartHTTP:", time.Since(t0))
	key := bytes.Repeat([]byte{0x41}, 32)
	iv := bytes.Repeat([]byte{0x42}, 16)
	s0 := observe.FSSnap(r.Dir)
	fmt.Println("initial:", s0)
	for _, id := range []uint32{0x0034abcd, 0x9234abcd} {
		m := &demon.Meta{AgentID: id, Hostname: "HOST", Username: "user", Domain: "DOM", InternalIP: "10.0.0.1", ProcessPath: "C:\\x\\proc.exe", PID: 10, TID: 11, PPID: 12, Arch: 2, Elevated: 1, BaseAddr: 0x7ff000, OS: [5]uint32{10, 0, 1, 0, 19045}, OSArch: 9, Sleep: 5, Jitter: 10}
		resp := rig.Post(h.GinEngine, "/", demon.Register(m.AgentID, key, iv, m), nil)
		fmt.Println("register:", resp.Status, len(resp.Body), resp.Panic)
		s1 := observe.FSSnap(r.Dir)
		dump(t, "register", s0, s1)
		s0 = s1
	}
	for _, a := range r.TS.Agents.Agents {
		fmt.Println("agent NameID:", a.NameID)
	}
	id := uint32(0x0034abcd)
	name := r.TS.Agents.Agents[0].NameID
	task := func(tid string) {
		r.TS.DispatchEvent(packager.Package{Head: packager.Head{Event: packager.Type.Session.Type, User: "alice"}, Body: packager.Body{SubEvent: packager.Type.Session.Input, Info: map[string]any{
			"DemonID": name, "CommandID": "15", "TaskID": tid, "CommandLine": "download x", "SubCommand": "download", "Arguments": base64.StdEncoding.EncodeToString([]byte("C:\\x"))}}})
	}
	task("0000AAAA")
	s1 := observe.FSSnap(r.Dir)
	dump(t, "task", s0, s1)
	s0 = s1
	post := func(tag string, cbs ...demon.Callback) {
		t1 := time.Now()
		resp := rig.Post(h.GinEngine, "/", demon.Checkin(id, key, iv, cbs...), nil)
		d1 := time.Since(t1)
		t1 = time.Now()
		s1 := observe.FSSnap(r.Dir)
		fmt.Println(tag, "status", resp.Status, "panic", resp.Panic, "post", d1, "snap", time.Since(t1))
		dump(t, tag, s0, s1)
		s0 = s1
	}
	post("empty checkin")
	var p demon.Pkg
	p.I32(2).I32(0).I32(7).I64(10).WStr("C:\\Users\\x\\file.txt")
	post("open", demon.Callback{Cmd: 15, ReqID: 0xAAAA, Body: p.B})
	p = demon.Pkg{}
	p.I32(2).I32(1).I32(7).Bytes([]byte("hello"))
	post("write", demon.Callback{Cmd: 15, ReqID: 0xAAAA, Body: p.B})
	p = demon.Pkg{}
	p.I32(2).I32(1).I32(8).Bytes([]byte("hello"))
	post("write unknown", demon.Callback{Cmd: 15, ReqID: 0xAAAA, Body: p.B})
	p = demon.Pkg{}
	p.I32(2).I32(2).I32(7).I32(0)
	post("close", demon.Callback{Cmd: 15, ReqID: 0xAAAA, Body: p.B})
	p = demon.Pkg{}
	p.I32(2).I32(1).I32(7).Bytes([]byte("hello"))
	post("write after close, req completed", demon.Callback{Cmd: 15, ReqID: 0xAAAA, Body: p.B})
	task("0000AAAB")
	s0 = observe.FSSnap(r.Dir)
	// beacon family
	blob := append([]byte{0, 0, 0, 9, 0, 0, 0, 5}, []byte("../Download_evil/x")...)
	p = demon.Pkg{}
	p.I32(2).Bytes(blob)
	post("beacon open evil", demon.Callback{Cmd: 94, ReqID: 0xAAAB, Body: p.B})
	p = demon.Pkg{}
	p.I32(8).Bytes(append([]byte{0, 0, 0, 9}, []byte("evil")...))
	post("beacon write", demon.Callback{Cmd: 94, ReqID: 0xAAAB, Body: p.B})
	p = demon.Pkg{}
	p.I32(9).Bytes([]byte{0, 0, 0, 9})
	post("beacon close", demon.Callback{Cmd: 94, ReqID: 0xAAAB, Body: p.B})
	// screenshot
	p = demon.Pkg{}
	p.I32(1).Bytes([]byte("garbage"))
	post("screenshot garbage", demon.Callback{Cmd: 2510, ReqID: 0xAAAB, Body: p.B})
	task("0000AAAC")
	s0 = observe.FSSnap(r.Dir)
	p = demon.Pkg{}
	p.I32(1).Bytes(tinyBMP())
	post("screenshot bmp", demon.Callback{Cmd: 2510, ReqID: 0xAAAC, Body: p.B})
	b, _ := os.ReadFile(r.Dir + "/data/loot/run/agents/" + name + "/Console_" + name + ".log")
	fmt.Printf("console log:\n%s\n", b)

	// service
	t0 = time.Now()
	sc, err := svcclient.Connect(fmt.Sprintf("127.0.0.1:%d", r.Port), "service-endpoint", "service-pw", "svc")
	if err != nil {
		t.Fatal(err)
	}
	fmt.Println("svc connect:", time.Since(t0))
	sc.RegisterAgent("Talon", "0x41414141")
	sc.SendJSON(map[string]any{"Head": map[string]any{"Type": "Agent"}, "Body": map[string]any{"Type": "AgentRegister",
		"AgentHeader":  map[string]any{"Size": "10", "MagicValue": "41414141", "AgentID": "0badf00d"},
		"RegisterInfo": map[string]any{"Hostname": "h", "Username": "u", "Domain": "d", "InternalIP": "1.1.1.1", "Process Path": "/bin/x", "Process Name": "x", "Process Arch": "x64", "Process ID": "1", "Process Parent ID": "1", "Process Elevated": "0", "OS Version": "10.0.1.0.19045", "OS Build": "1", "OS Arch": "x64", "SleepDelay": 1}}})
	sync := func(n int) {
		t1 := time.Now()
		ok, e, got := sc.AddExC2("sync", "syncep", fmt.Sprintf("r%d", n), 10*time.Second)
		fmt.Println("sync", ok, e, got, time.Since(t1))
	}
	sync(0)
	s1 = observe.FSSnap(r.Dir)
	dump(t, "svc register", s0, s1)
	s0 = s1
	for _, a := range r.TS.Agents.Agents {
		fmt.Println("agent NameID:", a.NameID)
	}
	n := 1
	out := func(aid, fname string, content []byte) {
		sc.SendJSON(map[string]any{"Head": map[string]any{"Type": "Agent"}, "Body": map[string]any{"Type": "AgentOutput", "AgentID": aid,
			"Callback": map[string]any{"MiscType": "download", "FileName": fname, "Content": base64.StdEncoding.EncodeToString(content)}}})
		sync(n)
		n++
		s1 := observe.FSSnap(r.Dir)
		dump(t, fmt.Sprintf("svc out %q %q", aid, fname), s0, s1)
		s0 = s1
	}
	out("0badf00d", "loot.txt", []byte("abc"))
	out("0badf00d", "../Download2/x", []byte("abc"))
	os.MkdirAll(r.Dir+"/data/loot/run/agents/0badf00d/Download2", 0o755)
	s0 = observe.FSSnap(r.Dir)
	out("0badf00d", "../Download2/x", []byte("abc"))
	out("0badf00d", "../Downloadx", []byte("abc"))
	out("../x", "f", []byte("abc"))
	out("../../x", "f", []byte("abc"))
	out("", "f", []byte("abc"))
	out(r.Dir+"/abs", "f", []byte("abc"))
	out("a/../b/c", "f", []byte("abc"))
	out(".", "f", []byte("abc"))
	out("..", "f", []byte("abc"))
	out("zzzz", "f", []byte("abc"))
	out("zzzz", "sub/f", []byte("abc"))
	out("zzzz", "", []byte("abc"))
	fmt.Println("closed:", sc.Closed())
}
