package c07

import "encoding/binary"

// tinyBMP is a valid 2x2 24-bit Windows bitmap (BITMAPINFOHEADER, bottom-up, rows padded
// to 4 bytes), written from the file format, so that the screenshot path gets past the
// BMP->PNG conversion.
func tinyBMP() []byte {
	const w, h = 2, 2
	row := (w*3 + 3) &^ 3
	size := 14 + 40 + row*h
	b := make([]byte, size)
	b[0], b[1] = 'B', 'M'
	binary.LittleEndian.PutUint32(b[2:], uint32(size))
	binary.LittleEndian.PutUint32(b[10:], 54)
	binary.LittleEndian.PutUint32(b[14:], 40)
	binary.LittleEndian.PutUint32(b[18:], w)
	binary.LittleEndian.PutUint32(b[22:], h)
	binary.LittleEndian.PutUint16(b[26:], 1)
	binary.LittleEndian.PutUint16(b[28:], 24)
	binary.LittleEndian.PutUint32(b[34:], uint32(row*h))
	for i := 54; i < size; i++ {
		b[i] = byte(i * 37)
	}
	return b
}
