// Package c07 holds the workload and monitor for property C07 (see /verif/DESIGN.md §3):
// loot stays inside the agent's loot folder and equals what was sent.
//
//	c07.go    worker entry: tiers, replay, witness minimisation (ddmin over operations)
//	gen.go    histories: hostile/benign file names, file ids, interleavings, service ids
//	model.go  reference name mapping, model of open transfers, landing-zone classes
//	exec.go   runs a history against the real teamserver and judges every operation
//	bmp.go    a valid 2x2 bitmap for the screenshot path
package c07
