// Package c07 holds the workload and monitor for property C07 (see /verif/DESIGN.md §3).
package c07
