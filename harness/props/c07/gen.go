package c07

import (
	"math/rand"
	"strings"
)

// Op is one operation of a history. Names are templates: {ID} = the acting agent's id,
// {OTHER} = another agent's id of the same history, {SVC} = the registered third-party
// agent's id, {ROOT} = absolute path of the temp root. Templates are expanded when the
// history runs, so the same history can be re-run with fresh agent ids (minimisation).
type Op struct {
	Kind   string `json:"kind"`          // open | write | close | transfer | shot | output | svc | svcout
	Agent  int    `json:"agent"`         // index into History.Agents (demon ops)
	Fam    string `json:"fam,omitempty"` // fs (COMMAND_FS download) | beacon (BEACON_OUTPUT CALLBACK_FILE*)
	FileID uint32 `json:"file_id,omitempty"`
	Name   []byte `json:"name,omitempty"`   // file name template (raw bytes; fs family: UTF-8 text sent as UTF-16LE)
	NameQ  string `json:"name_q,omitempty"` // quoted copy of Name for readers of the witness
	Size   uint64 `json:"size,omitempty"`
	Chunk  []byte `json:"chunk,omitempty"`
	Reason uint32 `json:"reason,omitempty"`
	Bmp    string `json:"bmp,omitempty"`    // valid | garbage | empty
	SvcID  string `json:"svc_id,omitempty"` // service AgentID template
	Text   string `json:"text,omitempty"`   // console output text
}

type AgentSpec struct {
	ID   uint32 `json:"id"`
	Host string `json:"host"` // hostile metadata strings (hostname, user, domain, process path)
}

type History struct {
	Agents []AgentSpec `json:"agents"`
	Svc    uint32      `json:"svc"` // id of the registered third-party agent
	Ops    []Op        `json:"ops"`
}

// hostileNames: the escapes named in the property's quantifier plus neighbours.
var hostileNames = []string{
	"..", "../x", "..\\x", "../../x", "..\\..\\x", "a/..\\../x", "a\\../..\\x",
	"C:\\Users\\x\\file.txt", "C:/Users/x/file.txt", "\\\\server\\share\\f", "C:..\\..\\x", "C:\\..\\..\\x",
	"../Download_evil/x", "..\\Downloadx\\f", "../Download2/x", "..\\Download2\\decoy.txt", "../Downloadx",
	"../Download2", "../Download/x", "../Download/../Download2/x", "x/../../Download2/y",
	"../../agents2/x", "../../../agents2/x", "..\\..\\..\\agents2\\decoy.txt", "../../{ID}x/f", "../../{ID}x/decoy.txt",
	"../../{OTHER}/Download/f", "../../{OTHER}/f", "../../{SVC}/Download/f",
	"../Screenshots/x.png", "../Screenshots2/x", "../Console_{ID}.log", "..\\Console_{ID}.log",
	"../../../canary.txt", "../../../../canary.txt", "../../../../../canary.txt", "../../../../../../canary.txt",
	"../../../../../outside/f", "../../../../../outside/canary.txt", "../../../../teamserver.db",
	"/etc/passwd", "\\etc\\passwd", "{ROOT}/outside/f", "{ROOT}/outside/canary.txt", "/{ROOT}/canary.txt",
	"\x00", "f\x00", "\x00f", "a\x00b", "a\x00/b", "dir\x00/../x", "../x\x00", "..\x00/x", "file.txt\x00\x00",
	"", "/", "\\", ".", "./", "./.", "f/", "f\\", "//", "\\\\", "/f", "\\f",
	"existingdir", "existingdir/", "existingdir\\", "existingdir/..", "existingdir/../..", "existingdir/../../x", "existingdir/f",
	"{L300}", "{L300}/f", "f/{L300}", "{L255}", "{L256}", "../{L300}/../x",
	"файл.txt", "文件/ファイル.txt", "𝒻𝒾𝓁ℯ.txt", "..\\𝒻/x", "a\u202eb", "e\u0301.txt",
	"...", "....//....//x", "..././x", ".. /x", "../ /x", "..%2fx", "..\u2215x", "..\uff0fx", "\uff0e\uff0e/x",
	"../newdir/../Download/f", "..\\stray\\..\\Download\\sub\\f", "../../{ID}y/../{ID}/Download/f", "../../../strayrun/../agents/{ID}/Download/f",
	"../../../../../../outside/pwn/../../data/loot/run/agents/{ID}/Download/f", "a/../../made/../Download/a/f",
	"Download", "Download/../../x", "x/../../../agents2/y", "./../x", "a/./../../x", "a//..//..//x", "..\\/x", "../",
	"..\\", "../.", "a/../..", "a/b/../../../x", "Download2/../../x",
}

var benignNames = []string{
	"file.txt", "notes.txt", "C:\\Users\\bob\\Desktop\\notes.txt", "C:\\Windows\\Temp\\dump.bin", "dir/sub/f.bin",
	"report 2024.pdf", "D:\\data\\a\\b\\c\\d.dat", "a.b.c", "x", "sub\\f.txt", "C:/mixed\\seps/file.txt", "loot.zip",
	"file.txt\x00", "C:\\Users\\bob\\file2.txt\x00",
}

var nameParts = []string{"..", "..", "..", ".", "", "a", "b", "Download", "Download2", "Downloadx", "Download_evil",
	"agents2", "agents", "{ID}", "{ID}x", "{OTHER}", "Screenshots", "existingdir", "f.txt", "x", "\x00", "C:", "canary.txt",
	"decoy.txt", "run", "loot", "data", "outside", "Console_{ID}.log"}

func genName(rng *rand.Rand) []byte {
	switch k := rng.Intn(100); {
	case k < 30:
		return []byte(benignNames[rng.Intn(len(benignNames))])
	case k < 75:
		return []byte(hostileNames[rng.Intn(len(hostileNames))])
	default:
		n := 1 + rng.Intn(6)
		var sb strings.Builder
		switch rng.Intn(6) {
		case 0:
			sb.WriteString("/")
		case 1:
			sb.WriteString("\\")
		case 2:
			sb.WriteString("C:\\")
		}
		for i := 0; i < n; i++ {
			if i > 0 {
				if rng.Intn(2) == 0 {
					sb.WriteString("/")
				} else {
					sb.WriteString("\\")
				}
			}
			sb.WriteString(nameParts[rng.Intn(len(nameParts))])
		}
		if rng.Intn(8) == 0 {
			sb.WriteString("\x00")
		}
		return []byte(sb.String())
	}
}

// service AgentIDs. Crafted ones are restricted to strings for which the unchanged tree's
// console writer does not reach log.Fatal (see c07.go, Assume): after path cleaning they
// start with "..", "/" or are ".", or their parent directory does not exist.
var svcCraftedIDs = []string{"../x", "../../x", "../../../x", "", "{ROOT}/abs", "{ROOT}/outside", "a/../nonexist{ID}/c", ".", "..",
	"../agents2", "../agents2/y", "../{ID}", "{ID}/../../x", "../agents/{ID}", "./../x", "/", "/etc", "..\\x/../../y"}

var svcPlainIDs = []string{"{SVC}", "{SVC}", "{SVC}", "u{ID}", "u{ID}x"}

var idPool = []uint32{1, 2, 7, 0, 0xffffffff, 0x80000000, 0x7fffffff, 0x41414141}

func genChunk(rng *rand.Rand) []byte {
	var n int
	switch k := rng.Intn(20); {
	case k == 0:
		n = 0
	case k < 12:
		n = 1 + rng.Intn(48)
	case k < 18:
		n = 100 + rng.Intn(900)
	default:
		n = 4000 + rng.Intn(5000)
	}
	b := make([]byte, n)
	rng.Read(b)
	return b
}

var texts = []string{"hello", "../../x", "line1\nline2\n", "\x00", "Console_../x.log", "{ID}", "C:\\Users\\x"}

// genHistory draws one history: 1-3 agents, 1-4 file ids (plus one that is never
// opened), a small name pool (so that two ids get the same name), and a random
// interleaving of operations.
func genHistory(rng *rand.Rand, used map[uint32]bool, nops int) History {
	var h History
	newID := func() uint32 {
		for {
			var id uint32
			switch rng.Intn(6) {
			case 0:
				id = rng.Uint32() | 0x80000000
			case 1:
				id = rng.Uint32() & 0x000fffff // leading zeros in the 8-hex name
			default:
				id = rng.Uint32()
			}
			if id > 0xff && !used[id] {
				used[id] = true
				return id
			}
		}
	}
	na := 1 + rng.Intn(3)
	for i := 0; i < na; i++ {
		host := "HOST"
		if rng.Intn(2) == 0 {
			host = strings.ReplaceAll(hostileNames[rng.Intn(len(hostileNames))], "\x00", "")
			if strings.Contains(host, "{L") {
				host = "../../x"
			}
		}
		h.Agents = append(h.Agents, AgentSpec{ID: newID(), Host: host})
	}
	// the service registers ids through ParseInt(id, 16, 32): keep it below 2^31
	for h.Svc = newID(); h.Svc >= 0x80000000; h.Svc = newID() {
	}
	nf := 1 + rng.Intn(4)
	fids := make([]uint32, 0, nf+1)
	for len(fids) < nf+1 {
		var f uint32
		if rng.Intn(2) == 0 {
			f = idPool[rng.Intn(len(idPool))]
		} else {
			f = rng.Uint32()
		}
		dupl := false
		for _, g := range fids {
			dupl = dupl || g == f
		}
		if !dupl {
			fids = append(fids, f)
		}
	}
	// fids[nf] is never opened
	nn := 3 + rng.Intn(6)
	names := make([][]byte, nn)
	for i := range names {
		names[i] = genName(rng)
	}
	names[0] = []byte(benignNames[rng.Intn(len(benignNames))])
	fam := func() string {
		if rng.Intn(2) == 0 {
			return "fs"
		}
		return "beacon"
	}
	// intended state (as if every open were accepted): steers most writes and closes to
	// open ids and most opens to free ids, the rest hits unknown/closed/duplicate ids
	openNow := make([]map[uint32]bool, na)
	nameOf := make([]map[uint32]int, na)
	for i := range openNow {
		openNow[i] = map[uint32]bool{}
		nameOf[i] = map[uint32]int{}
	}
	pick := func(a int, wantOpen bool, pool []uint32) uint32 {
		var c []uint32
		for _, f := range pool {
			if openNow[a][f] == wantOpen {
				c = append(c, f)
			}
		}
		if len(c) == 0 || rng.Intn(100) < 10 {
			return pool[rng.Intn(len(pool))]
		}
		return c[rng.Intn(len(c))]
	}
	for len(h.Ops) < nops {
		a := rng.Intn(na)
		var op Op
		k := rng.Intn(100)
		if k < 22 && len(openNow[a]) >= nf && rng.Intn(5) != 0 {
			k = 70 // every id is busy: mostly close one instead of opening an id twice
		}
		switch {
		case k < 22:
			ni := rng.Intn(nn)
			for try := 0; try < 3 && rng.Intn(4) != 0; try++ {
				// mostly a name no running transfer of this agent uses
				busy := false
				for _, n := range nameOf[a] {
					busy = busy || n == ni
				}
				if !busy {
					break
				}
				ni = rng.Intn(nn)
			}
			op = Op{Kind: "open", Agent: a, Fam: fam(), FileID: pick(a, false, fids[:nf]), Name: names[ni], Size: uint64(rng.Intn(1 << 20))}
			openNow[a][op.FileID] = true
			nameOf[a][op.FileID] = ni
		case k < 58:
			op = Op{Kind: "write", Agent: a, Fam: fam(), FileID: pick(a, true, fids), Chunk: genChunk(rng)}
		case k < 62:
			// the agent's answer to `transfer list / stop / resume` for a (mostly open) file id
			op = Op{Kind: "transfer", Agent: a, FileID: pick(a, true, fids), Reason: uint32(rng.Intn(3))}
		case k < 78:
			op = Op{Kind: "close", Agent: a, Fam: fam(), FileID: pick(a, true, fids), Reason: uint32(rng.Intn(2))}
			delete(openNow[a], op.FileID)
			delete(nameOf[a], op.FileID)
		case k < 82:
			op = Op{Kind: "shot", Agent: a, Bmp: []string{"valid", "valid", "garbage", "empty"}[rng.Intn(4)], Name: genName(rng)}
		case k < 85:
			op = Op{Kind: "output", Agent: a, Text: texts[rng.Intn(len(texts))]}
		case k < 97:
			op = Op{Kind: "svc", Agent: a, Name: genName(rng), Chunk: genChunk(rng)}
			if rng.Intn(2) == 0 {
				op.SvcID = svcPlainIDs[rng.Intn(len(svcPlainIDs))]
			} else {
				op.SvcID = svcCraftedIDs[rng.Intn(len(svcCraftedIDs))]
			}
		default:
			op = Op{Kind: "svcout", Agent: a, Text: texts[rng.Intn(len(texts))]}
			if rng.Intn(3) == 0 {
				op.SvcID = svcPlainIDs[rng.Intn(len(svcPlainIDs))]
			} else {
				op.SvcID = svcCraftedIDs[rng.Intn(len(svcCraftedIDs))]
			}
		}
		h.Ops = append(h.Ops, op)
	}
	return h
}
