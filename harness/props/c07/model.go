package c07

import (
	"strings"
)

// ---- reference name mapping (written from the property statement, not from DownloadAdd) ----
//
// A file name sent by an agent is a Windows or POSIX path: both separators count. Its
// directory part is resolved lexically below <agent>/Download; a name is storable when the
// resolved directory is the download directory itself or lies inside it, compared
// component by component. The file is the last component without surrounding NULs.

// resolveUnder resolves parts lexically, starting at base (a list of components), and
// reports the resulting component list. Going above the first component yields "..".
func resolveUnder(base []string, parts []string) []string {
	st := append([]string{}, base...)
	for _, p := range parts {
		switch p {
		case "", ".":
		case "..":
			if len(st) > 0 && st[len(st)-1] != ".." {
				st = st[:len(st)-1]
			} else {
				st = append(st, "..")
			}
		default:
			st = append(st, p)
		}
	}
	return st
}

func hasCompPrefix(p, prefix []string) bool {
	if len(p) < len(prefix) {
		return false
	}
	for i := range prefix {
		if p[i] != prefix[i] {
			return false
		}
	}
	return true
}

// refPath maps a delivered name to the reference location. ok=false: the name must not be
// stored anywhere (directory part leaves the download directory; path is then where the
// lexical resolution points). storable=false: the name
// resolves inside but the operating system cannot hold it (empty/dot file component, NUL,
// over-long component) - a rejection is then expected.
func refPath(downloadDir string, name string) (path string, ok, storable bool) {
	s := strings.ReplaceAll(name, "\\", "/")
	parts := strings.Split(s, "/")
	file := strings.Trim(parts[len(parts)-1], "\x00")
	base := strings.Split(downloadDir, "/")
	dir := resolveUnder(base, parts[:len(parts)-1])
	if !hasCompPrefix(dir, base) {
		// where a purely lexical resolution would land: only used to locate a file that the
		// code under test created although the name must be refused
		return strings.Join(dir, "/") + "/" + file, false, false
	}
	storable = true
	for _, c := range dir[len(base):] {
		if strings.ContainsRune(c, 0) || len(c) > 255 {
			storable = false
		}
	}
	if file == "" || file == "." || file == ".." || strings.ContainsRune(file, 0) || len(file) > 255 {
		storable = false
	}
	return strings.Join(dir, "/") + "/" + file, true, storable
}

// benign reports whether a name belongs to the class for which the loot layout is pinned:
// an optional drive prefix and 1..8 components of [A-Za-z0-9._ -] (not "." or ".."), joined
// by / or \, optionally followed by NULs. Such a download must be accepted and stored at
// Download/<components>.
func benign(name string) bool {
	s := strings.TrimRight(name, "\x00")
	s = strings.ReplaceAll(s, "\\", "/")
	parts := strings.Split(s, "/")
	if len(parts) == 0 || len(parts) > 8 {
		return false
	}
	for i, p := range parts {
		if i == 0 && len(p) == 2 && p[1] == ':' && (p[0] >= 'A' && p[0] <= 'Z') && len(parts) > 1 {
			continue
		}
		if p == "" || p == "." || p == ".." || len(p) > 64 {
			return false
		}
		for _, c := range []byte(p) {
			if !(c >= 'a' && c <= 'z' || c >= 'A' && c <= 'Z' || c >= '0' && c <= '9' || c == '.' || c == '_' || c == ' ' || c == '-') {
				return false
			}
		}
	}
	return true
}

// ---- model of transfers ----

type entry struct {
	fid     uint32
	gen     int    // generation of the file id: ends when no transfer of the id is open
	path    string // relative to the temp root; "" = unknown
	data    []byte // expected content: concatenation of the chunks in arrival order
	open    bool
	dup     bool // another transfer with the same id was open at the same time: no content verdict
	shared  bool // another open transfer had the same path at the same time
	escaped bool // created outside the download directory (reported at open)
	opIdx   int
}

type agentModel struct {
	id      uint32
	name    string // 8 hex digits
	base    string // data/loot/run/agents/<name>
	entries []*entry
	gens    map[uint32]int
	console []byte
	seen    map[string]string // delivered name -> path an earlier accepted open was observed to use
	tasks   []uint32          // outstanding request ids not yet used
}

func (a *agentModel) openEntries(fid uint32) []*entry {
	var out []*entry
	for _, e := range a.entries {
		if e.fid == fid && e.open {
			out = append(out, e)
		}
	}
	return out
}

// targets: paths a chunk for fid may legitimately change = files of the id's current
// generation (one file unless the agent opened the id twice).
func (a *agentModel) targets(fid uint32) map[string]bool {
	out := map[string]bool{}
	if len(a.openEntries(fid)) == 0 {
		return out
	}
	g := a.gens[fid]
	for _, e := range a.entries {
		if e.fid == fid && e.gen == g && e.path != "" {
			out[e.path] = true
		}
	}
	return out
}

func (a *agentModel) everOpened(fid uint32) bool {
	for _, e := range a.entries {
		if e.fid == fid {
			return true
		}
	}
	return false
}

// ---- classification of a path relative to an agent's legitimate area ----

func under(p, dir string) bool { return strings.HasPrefix(p, dir+"/") }

func firstComp(p, dir string) string {
	r := strings.TrimPrefix(p, dir+"/")
	if i := strings.IndexByte(r, '/'); i >= 0 {
		r = r[:i]
	}
	return r
}

const agentsDir = "data/loot/run/agents"
const lootRun = "data/loot/run"

// escapeClass names where a path lies when it is outside <agents>/<name>/Download.
func escapeClass(p, name string) string {
	base := agentsDir + "/" + name
	switch {
	case p == base || under(p, base):
		fc := firstComp(p, base)
		switch {
		case p == base:
			return "agent-dir"
		case fc != "Download" && strings.HasPrefix(fc, "Download"):
			return "download-prefix-sibling"
		case fc != "Screenshots" && strings.HasPrefix(fc, "Screenshots"):
			return "screenshots-prefix-sibling"
		default:
			return "agent-dir"
		}
	case under(p, agentsDir):
		fc := firstComp(p, agentsDir)
		if name != "" && fc != name && strings.HasPrefix(fc, name) {
			return "agent-prefix-sibling"
		}
		return "agents-root"
	case under(p, lootRun) || p == lootRun:
		fc := firstComp(p, lootRun)
		if fc != "agents" && strings.HasPrefix(fc, "agents") {
			return "agents-prefix-sibling"
		}
		return "loot-root"
	default:
		return "outside-loot"
	}
}
