// Package c07: loot containment and download integrity (DESIGN.md §3 C07).
//
// Histories of open/write/close callbacks (both callback families), screenshots, console
// output and third-party service downloads with hostile file names and agent ids are sent
// through the real listener / service endpoint of an in-process teamserver. After every
// single operation the whole temp root is listed and hashed; every created or modified
// path must lie in the acting agent's own Download/**, Screenshots/* or be its console
// log, chunks may only change the file of their own transfer, chunks for unknown or closed
// ids change nothing, and at close the file equals the concatenation of its chunks.
package c07

import (
	"encoding/json"
	"runtime"

	"verifh/lib"
)

func init() { lib.Register("C07", run) }

type witness struct {
	History  History   `json:"history"`
	Finding  finding   `json:"finding"`
	All      []finding `json:"all_findings_of_the_history,omitempty"`
	Minimal  bool      `json:"minimised"`
	ReplayOf string    `json:"how_to_replay"`
}

func hasSig(fs []finding, sig string) *finding {
	for i := range fs {
		if fs[i].Sig == sig {
			return &fs[i]
		}
	}
	return nil
}

// remap gives a history fresh agent ids (same shape), so that it can run again on the
// same rig.
func remap(h History, used map[uint32]bool) History {
	n := History{Ops: h.Ops}
	fresh := func(old uint32) uint32 {
		id := old
		for used[id] || id <= 0xff {
			id = id*1664525 + 1013904223
			if old < 0x80000000 {
				id &= 0x7fffffff
			}
		}
		used[id] = true
		return id
	}
	for _, a := range h.Agents {
		n.Agents = append(n.Agents, AgentSpec{ID: fresh(a.ID), Host: a.Host})
	}
	n.Svc = fresh(h.Svc)
	return n
}

// minimise removes operations (then agents' hostile metadata) as long as the same
// signature is still reported. Deterministic, at most a few dozen re-runs.
func minimise(e *env, h History, sig string, used map[uint32]bool) (History, []finding) {
	e.quiet = true
	defer func() { e.quiet = false }()
	try := func(c History) ([]finding, History, bool) {
		c = remap(c, used)
		fs := e.runHistory(c)
		return fs, c, hasSig(fs, sig) != nil
	}
	fsBest, best, ok := try(h)
	if !ok {
		return h, nil // does not reproduce on a re-run: report the original
	}
	// cut everything after the reporting operation
	if f := hasSig(fsBest, sig); f != nil && f.Op >= 0 && f.Op+1 < len(best.Ops) {
		c := best
		c.Ops = append([]Op{}, best.Ops[:f.Op+1]...)
		if fs, c2, ok := try(c); ok {
			best, fsBest = c2, fs
		}
	}
	// ddmin on the operation list: remove blocks of halving size
	for blk := (len(best.Ops) + 1) / 2; blk >= 1; {
		removed := false
		for i := 0; i+blk <= len(best.Ops) && len(best.Ops) > 1; {
			c := best
			c.Ops = append(append([]Op{}, best.Ops[:i]...), best.Ops[i+blk:]...)
			if len(c.Ops) == 0 {
				i += blk
				continue
			}
			if fs, c2, ok := try(c); ok {
				best, fsBest = c2, fs
				removed = true
			} else {
				i += blk
			}
		}
		if blk == 1 && !removed {
			break
		}
		if blk > 1 {
			blk = (blk + 1) / 2
		} else if !removed {
			break
		}
	}
	// one agent if possible
	if len(best.Agents) > 1 {
		c := best
		c.Agents = best.Agents[:1]
		c.Ops = append([]Op{}, best.Ops...)
		for i := range c.Ops {
			c.Ops[i].Agent = 0
		}
		if fs, c2, ok := try(c); ok {
			best, fsBest = c2, fs
		}
	}
	for i := range best.Agents {
		if best.Agents[i].Host != "HOST" {
			c := best
			c.Agents = append([]AgentSpec{}, best.Agents...)
			c.Agents[i].Host = "HOST"
			if fs, c2, ok := try(c); ok {
				best, fsBest = c2, fs
			}
		}
	}
	return best, fsBest
}

func fillQuoted(h *History) {
	for i := range h.Ops {
		if len(h.Ops[i].Name) > 0 {
			h.Ops[i].NameQ = q(string(h.Ops[i].Name))
		}
	}
}

func run(c *lib.Ctx) {
	c.Rule("one evaluation = one operation (open/write/close of either callback family, screenshot, console output, service download/output) " +
		"followed by a full listing+hash of the temp root; distinct by (kind, family, name template, model state of the addressed file id or class of service id); " +
		"every operation is non-trivial: it either carries a hostile or layout-pinned name/id or moves a transfer's state")
	c.Assume(
		"observe.FSSnap sees every file the teamserver touches (all loot writers use paths relative to the worker's cwd = temp root, or absolute paths the workload points into the temp root)",
		"the reference Demon encodes callbacks as Download.c/Command.c do (layouts checked against both TaskDispatch and the C source)",
		"service agent ids for which the console writer would end the process with log.Fatal (ids containing a separator whose cleaned form names an existing directory, NUL bytes, over-long ids) are not generated: a process exit is not a statement about where loot lands",
		"a second open of a file id that is still open makes the agent's intent ambiguous: containment and chunk targets are still checked for it, content equality is not",
		"a new download that re-uses the path of an already CLOSED download may replace it (re-download); only transfers that are open at the same time must not share a file",
	)
	e, err := newEnv(c)
	if err != nil {
		c.Inconclusive("rig: " + err.Error())
		return
	}
	defer func() { e.r.Close() }()
	used := map[uint32]bool{}

	if c.Replay != nil {
		var w witness
		if err := json.Unmarshal(c.Replay, &w); err != nil {
			c.Inconclusive("replay: " + err.Error())
			return
		}
		fs := e.runHistory(w.History)
		c.EvalN(len(w.History.Ops))
		seen := map[string]bool{}
		for _, f := range fs {
			if !seen[f.Sig] {
				seen[f.Sig] = true
				c.Violation(f.Sig, f.What+": expected "+f.Expected+"; observed "+f.Observed, witness{History: w.History, Finding: f, Minimal: w.Minimal})
			}
		}
		return
	}

	n := c.N(12800, 1600000)
	minimised := map[string]int{}
	done := 0
	nhist := 0
	for done < n {
		// a fresh teamserver every 100 histories: its session table, event list and
		// database only grow, and every operation pays for their size. The old one is
		// abandoned, not shut down (closing a service connection is C16's subject).
		if nhist++; nhist%100 == 0 {
			e.r.Close() // chdir away and remove the old temp root first: the new rig chdirs into its own
			ne, err := newEnv(c)
			if err != nil {
				c.Inconclusive("rig: " + err.Error())
				return
			}
			e = ne
		}
		nops := 24 + c.Rng.Intn(40)
		if nops > n-done {
			nops = n - done
		}
		h := genHistory(c.Rng, used, nops)
		fillQuoted(&h)
		hb, _ := json.Marshal(h)
		c.Cur("history", hb)
		fs := e.runHistory(h)
		done += len(h.Ops)
		c.SampleSome(40, func() any {
			s := h
			if len(s.Ops) > 12 {
				s.Ops = s.Ops[:12]
			}
			for i := range s.Ops {
				if len(s.Ops[i].Chunk) > 16 {
					o := s.Ops[i]
					o.Chunk = o.Chunk[:16]
					s.Ops = append(append(append([]Op{}, s.Ops[:i]...), o), s.Ops[i+1:]...)
				}
			}
			return s
		})
		seen := map[string]bool{}
		for _, f := range fs {
			if seen[f.Sig] {
				continue
			}
			seen[f.Sig] = true
			w := witness{History: h, Finding: f, All: fs, ReplayOf: "./check C07 --replay <this file>"}
			if minimised[f.Sig] < 1 && len(f.Sig) > 0 && f.Sig[:5] != "panic" && f.Sig[:5] != "harne" {
				minimised[f.Sig]++
				if mh, mfs := minimise(e, h, f.Sig, used); mfs != nil {
					fillQuoted(&mh)
					w = witness{History: mh, Finding: *hasSig(mfs, f.Sig), Minimal: true, ReplayOf: w.ReplayOf}
				}
			}
			if f.Sig == "harness:service-sync" {
				c.Inconclusive("service connection stopped answering during a history")
				return
			}
			c.Violation(w.Finding.Sig, w.Finding.What+": expected "+w.Finding.Expected+"; observed "+w.Finding.Observed, w)
		}
		if done%2000 < 64 {
			runtime.GC() // the log writers never close their files; finalizers do
			c.Checkpoint()
		}
	}
}
