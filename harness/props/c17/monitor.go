package c17

import (
	"bytes"
	"fmt"
	"reflect"
	"strings"
	"sync"
	"time"

	hcl "Havoc/pkg/profile/yaotl"
	"Havoc/pkg/profile/yaotl/hclsyntax"
	hcljson "Havoc/pkg/profile/yaotl/json"

	"verifh/lib"
)

// Entry points of the code under test. One "input" is run through all of them.
const (
	eLexConfig = iota
	eLexExpression
	eLexTemplate
	eParseConfig
	eParseExpression
	eParseTemplate
	eParseTraversal
	eJSON
	nEntries
)

var entryNames = [nEntries]string{
	"LexConfig", "LexExpression", "LexTemplate",
	"ParseConfig", "ParseExpression", "ParseTemplate", "ParseTraversalAbs", "json.Parse",
}

func entryByName(s string) int {
	for i, n := range entryNames {
		if n == s {
			return i
		}
	}
	return -1
}

const fileName = "c17.in"

// finding is one candidate violation of the property on one (entry, input).
type finding struct {
	Sig    string
	What   string
	Detail map[string]any
}

// stats is what the monitor saw on one (entry, input); folded into Observe counters.
type stats struct {
	tokens     int
	nonEOF     int
	nodes      int
	maxDepth   int
	diags      int
	errFree    bool
	panicked   bool
	evaluated  int
	decoded    int
	ranges     int
	jsonAttrs  int
	jsonBlocks int
	jsonNames  int
	evalSkip   bool
	dur        time.Duration
	// relexChecked: the token list was checked again after other inputs had been lexed
	relexChecked int
}

type checker struct {
	// noDiagRanges: do not judge the ranges of the diagnostics being checked (set while
	// templates inside JSON strings are evaluated and the JSON text has escapes or invalid
	// UTF-8: json/structure.go documents those positions as approximate)
	noDiagRanges bool
	jsonApprox   bool
	nilNode      bool
	evalOK       bool // see evalSafe

	src      []byte
	entry    int
	findings []finding
	st       stats
	seen     map[string]bool
}

func (k *checker) report(sig, what string, detail map[string]any) {
	if k.seen == nil {
		k.seen = map[string]bool{}
	}
	if k.seen[sig] {
		return
	}
	k.seen[sig] = true
	if detail == nil {
		detail = map[string]any{}
	}
	k.findings = append(k.findings, finding{Sig: sig, What: what, Detail: detail})
}

func (k *checker) panicFinding(phase string, pv any, stack string) {
	k.st.panicked = true
	// the signature keeps the class of the panic, not the values it prints
	msg := fmt.Sprint(pv)
	if i := strings.Index(msg, "[]"); i > 0 {
		msg = msg[:i]
	}
	sig := fmt.Sprintf("panic:%s@%s", lib.Classify(msg), lib.TopHavocFrames(stack, 1))
	k.report(sig, fmt.Sprintf("%s: %s panicked: %v", entryNames[k.entry], phase, pv),
		map[string]any{"phase": phase, "panic": fmt.Sprint(pv), "stack": trimStack(stack)})
}

func trimStack(s string) []string {
	lines := strings.Split(s, "\n")
	if len(lines) > 40 {
		lines = lines[:40]
	}
	return lines
}

func rstr(r hcl.Range) string {
	return fmt.Sprintf("[%d,%d)", r.Start.Byte, r.End.Byte)
}

// inInput is the whole demand the statement makes on a single range: it lies inside
// the input and is not inverted. (Line/column, file name: not demanded.)
func (k *checker) inInput(r hcl.Range) bool {
	return 0 <= r.Start.Byte && r.Start.Byte <= r.End.Byte && r.End.Byte <= len(k.src)
}

func (k *checker) status() string {
	if k.st.errFree {
		return "error-free"
	}
	return "with-errors"
}

// syntax names the grammar whose tree-building code produced the node: the three native
// entry points share it, so one defect there has one signature.
func (k *checker) syntax() string {
	if k.entry == eJSON {
		return "json"
	}
	return "native"
}

func (k *checker) rangeFinding(r hcl.Range, owner, field string) {
	kind := "outside-input"
	if r.End.Byte < r.Start.Byte {
		kind = "inverted"
	}
	k.report(fmt.Sprintf("range:%s:%s.%s:%s", kind, owner, field, k.status()),
		fmt.Sprintf("%s: range %s of %s %s is %s (input has %d bytes)", entryNames[k.entry], field, owner, rstr(r), kind, len(k.src)),
		map[string]any{"range": rstr(r), "len": len(k.src), "diagnostics": k.status()})
}

func (k *checker) checkRange(r hcl.Range, owner, field string) bool {
	k.st.ranges++
	if k.inInput(r) {
		return true
	}
	k.rangeFinding(r, owner, field)
	return false
}

func (k *checker) checkDiags(diags hcl.Diagnostics, phase string) {
	for _, d := range diags {
		if d == nil {
			k.report("diag:nil@"+entryNames[k.entry], entryNames[k.entry]+": nil diagnostic in the returned list ("+phase+")", nil)
			continue
		}
		k.st.diags++
		if k.noDiagRanges {
			continue
		}
		if d.Subject != nil {
			k.st.ranges++
			if !k.inInput(*d.Subject) {
				k.rangeFinding(*d.Subject, phase+"-diagnostic("+lib.Classify(d.Summary)+")", "Subject")
			}
		}
		if d.Context != nil {
			k.st.ranges++
			if !k.inInput(*d.Context) {
				k.rangeFinding(*d.Context, phase+"-diagnostic("+lib.Classify(d.Summary)+")", "Context")
			}
		}
	}
}

// ---------------------------------------------------------------- tokens

func isBlank(b byte) bool { return b == ' ' || b == '\t' }

var utf8BOM = []byte{0xef, 0xbb, 0xbf}

// laterInput is lexed between receiving a token list and looking at it a second time.
var laterInput = []byte("Teamserver {\n  Host = \"0.0.0.0\"\n  Port = 40056\n  Build { Compiler64 = \"/usr/bin/x86_64-w64-mingw32-gcc\" }\n}\nOperators {\n  user \"5pider\" { Password = \"p${w}\" }\n}\n# end\n")

// checkTokens: tokens in source order, no overlap, Bytes == input[Range], gaps hold only
// blanks (space, tab; a UTF-8 byte-order mark at offset 0 is the one thing besides blanks
// that the scanner is documented to drop, it is an encoding signature and not content),
// last token EOF at len(input).
func (k *checker) checkTokens(toks hclsyntax.Tokens) {
	en := entryNames[k.entry]
	mode := "normal-mode"
	if k.entry == eLexTemplate {
		mode = "template-mode"
	}
	src := k.src
	k.st.tokens += len(toks)
	if len(toks) == 0 {
		k.report("token:none:"+mode, en+": returned no tokens at all (not even EOF)", nil)
		return
	}
	prevEnd := 0
	if bytes.HasPrefix(src, utf8BOM) {
		prevEnd = 3
	}
	for i, t := range toks {
		s, e := t.Range.Start.Byte, t.Range.End.Byte
		tn := t.Type.String()
		if !(0 <= s && s <= e && e <= len(src)) {
			k.report("token:range-outside-input:"+mode,
				fmt.Sprintf("%s: token %d (%s) has range %s, input has %d bytes", en, i, tn, rstr(t.Range), len(src)),
				map[string]any{"token_index": i, "range": rstr(t.Range)})
			return
		}
		if s < prevEnd {
			k.report("token:overlap-or-disorder:"+mode,
				fmt.Sprintf("%s: token %d (%s) starts at %d, before the end %d of what precedes it", en, i, tn, s, prevEnd),
				map[string]any{"token_index": i, "range": rstr(t.Range), "prev_end": prevEnd})
			return
		}
		for j := prevEnd; j < s; j++ {
			if !isBlank(src[j]) {
				k.report("token:gap-not-blank:"+mode,
					fmt.Sprintf("%s: input byte %d (0x%02x) is covered by no token: gap [%d,%d) before token %d (%s)", en, j, src[j], prevEnd, s, i, tn),
					map[string]any{"token_index": i, "gap": fmt.Sprintf("[%d,%d)", prevEnd, s), "byte": src[j]})
				return
			}
		}
		if !bytes.Equal(t.Bytes, src[s:e]) {
			k.report("token:bytes-differ:"+mode,
				fmt.Sprintf("%s: token %d (%s) range %s carries %q, the input there is %q", en, i, tn, rstr(t.Range), clip(t.Bytes), clip(src[s:e])),
				map[string]any{"token_index": i, "range": rstr(t.Range), "token_bytes_hex": fmt.Sprintf("%x", clip(t.Bytes))})
			return
		}
		if t.Type != hclsyntax.TokenEOF {
			k.st.nonEOF++
		}
		prevEnd = e
	}
	last := toks[len(toks)-1]
	if last.Type != hclsyntax.TokenEOF {
		k.report("token:last-not-eof:"+mode, fmt.Sprintf("%s: last token is %s, not EOF", en, last.Type), nil)
	} else if last.Range.Start.Byte != len(src) {
		k.report("token:eof-not-at-end:"+mode, fmt.Sprintf("%s: EOF token at %s, input has %d bytes", en, rstr(last.Range), len(src)), nil)
	}
}

func clip(b []byte) []byte {
	if len(b) > 48 {
		return b[:48]
	}
	return b
}

// ---------------------------------------------------------------- native tree

// rangeFields caches, per node struct type, the fields that hold source ranges.
type rangeField struct {
	idx  int
	name string
	kind int // 0 Range, 1 []Range, 2 Traversal
}

var (
	rfMu    sync.Mutex
	rfCache = map[reflect.Type][]rangeField{}
	tRange  = reflect.TypeOf(hcl.Range{})
	tRanges = reflect.TypeOf([]hcl.Range{})
	tTrav   = reflect.TypeOf(hcl.Traversal{})
)

func rangeFieldsOf(t reflect.Type) []rangeField {
	rfMu.Lock()
	defer rfMu.Unlock()
	if f, ok := rfCache[t]; ok {
		return f
	}
	var out []rangeField
	for i := 0; i < t.NumField(); i++ {
		f := t.Field(i)
		if !f.IsExported() {
			continue
		}
		switch f.Type {
		case tRange:
			out = append(out, rangeField{i, f.Name, 0})
		case tRanges:
			out = append(out, rangeField{i, f.Name, 1})
		case tTrav:
			out = append(out, rangeField{i, f.Name, 2})
		}
	}
	rfCache[t] = out
	return out
}

func nodeTypeName(n hclsyntax.Node) string {
	if n == nil {
		return "nil"
	}
	s := reflect.TypeOf(n).String()
	s = strings.TrimPrefix(s, "*")
	return strings.TrimPrefix(s, "hclsyntax.")
}

func isNilNode(n hclsyntax.Node) bool {
	if n == nil {
		return true
	}
	v := reflect.ValueOf(n)
	switch v.Kind() {
	case reflect.Ptr, reflect.Map, reflect.Slice, reflect.Interface:
		return v.IsNil()
	}
	return false
}

type frame struct {
	r          hcl.Range
	name       string
	group      bool // the grouping nodes Attributes / Blocks, whose Range() is documented as arbitrary
	broken     bool // own range not inside the input / inverted
	descBroken bool // some descendant's range is broken (this node's range is usually computed from it)
}

// walker checks every node's ranges. To keep one defect at one signature, a range that is
// broken is blamed on the deepest node that has it: ancestors of a broken node are not
// reported for their own (derived) range, and descendants of a broken node are not compared
// with it or with anything above it.
type walker struct {
	k     *checker
	stack []frame
}

func (w *walker) Enter(n hclsyntax.Node) hcl.Diagnostics {
	k := w.k
	k.st.nodes++
	if d := len(w.stack) + 1; d > k.st.maxDepth {
		k.st.maxDepth = d
	}
	switch n.(type) {
	case hclsyntax.Attributes, hclsyntax.Blocks:
		w.stack = append(w.stack, frame{group: true})
		return nil
	}
	name := nodeTypeName(n)
	if isNilNode(n) {
		// a nil child would make Walk itself dereference nil; report what we can
		k.nilNode = true
		k.report("tree:nil-node:"+name+":"+k.status(), entryNames[k.entry]+": the tree contains a nil "+name+" node", nil)
		w.stack = append(w.stack, frame{group: true})
		return nil
	}
	r := n.Range()
	k.st.ranges++
	ok := k.inInput(r)
	if ok {
		_, anon := n.(*hclsyntax.AnonSymbolExpr)
		for i := len(w.stack) - 1; i >= 0; i-- {
			p := w.stack[i]
			if p.group {
				continue
			}
			if p.broken {
				break
			}
			if anon && p.name != "SplatExpr" {
				// the anonymous symbol is the enclosing splat's item, referred to from inside
				// the per-item expression; its range is the splat marker
				continue
			}
			if !(p.r.Start.Byte <= r.Start.Byte && r.End.Byte <= p.r.End.Byte) {
				dir := "ends-after-parent"
				if r.Start.Byte < p.r.Start.Byte {
					dir = "starts-before-parent"
				}
				k.report(fmt.Sprintf("range:child-outside-parent:%s:%s:%s", p.name, dir, k.status()),
					fmt.Sprintf("%s: %s node %s is not inside its parent %s %s", entryNames[k.entry], name, rstr(r), p.name, rstr(p.r)),
					map[string]any{"child": rstr(r), "child_type": name, "parent": rstr(p.r), "diagnostics": k.status()})
			}
			break
		}
	}
	w.stack = append(w.stack, frame{r: r, name: name, broken: !ok})
	// every other range the node carries
	if e, isExpr := n.(hclsyntax.Expression); isExpr {
		if sr := e.StartRange(); sr != r {
			k.checkRange(sr, name, "StartRange()")
		}
	}
	v := reflect.ValueOf(n)
	if v.Kind() == reflect.Ptr {
		v = v.Elem()
	}
	if v.Kind() == reflect.Struct {
		for _, f := range rangeFieldsOf(v.Type()) {
			fv := v.Field(f.idx)
			switch f.kind {
			case 0:
				if fr := fv.Interface().(hcl.Range); fr != r {
					k.checkRange(fr, name, f.name)
				}
			case 1:
				for _, r := range fv.Interface().([]hcl.Range) {
					k.checkRange(r, name, f.name+"[]")
				}
			case 2:
				for _, st := range fv.Interface().(hcl.Traversal) {
					if st == nil {
						k.report("tree:nil-traverser:"+name+":"+k.status(), entryNames[k.entry]+": nil step in the traversal of a "+name, nil)
						continue
					}
					k.checkRange(st.SourceRange(), name, f.name+"[].SrcRange")
				}
			}
		}
	}
	return nil
}

func (w *walker) Exit(n hclsyntax.Node) hcl.Diagnostics {
	f := w.stack[len(w.stack)-1]
	w.stack = w.stack[:len(w.stack)-1]
	if f.broken && !f.descBroken {
		w.k.rangeFinding(f.r, f.name, "Range()")
	}
	if len(w.stack) > 0 && (f.broken || f.descBroken) {
		w.stack[len(w.stack)-1].descBroken = true
	}
	return nil
}

func (k *checker) walkTree(root hclsyntax.Node) {
	if isNilNode(root) {
		return
	}
	w := &walker{k: k}
	if pv, st := lib.Guard(func() { hclsyntax.Walk(root, w) }); pv != nil {
		if k.nilNode && strings.Contains(fmt.Sprint(pv), "nil pointer") {
			return // consequence of the nil node already reported
		}
		k.panicFinding("hclsyntax.Walk over the returned tree", pv, st)
	}
}

func (k *checker) checkTraversal(tr hcl.Traversal) {
	for i, st := range tr {
		if st == nil {
			k.report("tree:nil-traverser:Traversal:"+k.status(), entryNames[k.entry]+": nil step in the returned traversal", nil)
			continue
		}
		k.st.nodes++
		k.checkRange(st.SourceRange(), "Traversal", fmt.Sprintf("step(%s).SrcRange", strings.TrimPrefix(reflect.TypeOf(st).String(), "hcl.")))
		_ = i
	}
	if len(tr) > 0 {
		if pv, st := lib.Guard(func() { k.checkRange(tr.SourceRange(), "Traversal", "SourceRange()") }); pv != nil {
			k.panicFinding("Traversal.SourceRange", pv, st)
		}
	}
}

// ---------------------------------------------------------------- one (entry, input)

var startPos = hcl.Pos{Line: 1, Column: 1, Byte: 0}

// runEntry runs one entry point of the real code on src and applies the whole oracle.
func runEntry(entry int, src []byte) *checker {
	k := &checker{src: src, entry: entry}
	if entry >= eParseConfig {
		k.evalOK = evalSafe(src)
	}
	k.st.evalSkip = entry >= eParseConfig && !k.evalOK
	t0 := time.Now()
	switch entry {
	case eLexConfig, eLexExpression, eLexTemplate:
		var toks hclsyntax.Tokens
		var diags hcl.Diagnostics
		pv, st := lib.Guard(func() {
			switch entry {
			case eLexConfig:
				toks, diags = hclsyntax.LexConfig(src, fileName, startPos)
			case eLexExpression:
				toks, diags = hclsyntax.LexExpression(src, fileName, startPos)
			default:
				toks, diags = hclsyntax.LexTemplate(src, fileName, startPos)
			}
		})
		k.st.dur = time.Since(t0)
		if pv != nil {
			k.panicFinding("lexing", pv, st)
			return k
		}
		k.st.errFree = !diags.HasErrors()
		k.checkTokens(toks)
		if len(k.findings) == 0 && len(toks) > 0 {
			// the tokens handed out belong to the caller: they still describe this input after
			// the package has lexed something else
			saved := k.st
			lib.Guard(func() { hclsyntax.LexConfig(laterInput, "later.hcl", startPos) })
			lib.Guard(func() { hclsyntax.LexTemplate(laterInput[:37], "later.tpl", startPos) })
			k.checkTokens(toks)
			k.st = saved
			for i := range k.findings {
				k.findings[i].Sig = "token:changed-by-a-later-lex:" + k.findings[i].Sig
				k.findings[i].What = "after another input was lexed, the tokens returned for this one no longer match it: " + k.findings[i].What
			}
			k.st.relexChecked++
		}
		k.checkDiags(diags, "lex")

	case eParseConfig:
		var f *hcl.File
		var diags hcl.Diagnostics
		pv, st := lib.Guard(func() { f, diags = hclsyntax.ParseConfig(src, fileName, startPos) })
		k.st.dur = time.Since(t0)
		if pv != nil {
			k.panicFinding("parsing", pv, st)
			return k
		}
		k.st.errFree = !diags.HasErrors()
		k.checkDiags(diags, "parse")
		var body *hclsyntax.Body
		if f != nil && f.Body != nil {
			body, _ = f.Body.(*hclsyntax.Body)
		}
		if body == nil {
			if len(diags) == 0 {
				k.report("result:neither-tree-nor-diagnostics@ParseConfig", "ParseConfig returned neither a body nor a diagnostic", nil)
			} else if !diags.HasErrors() {
				k.report("result:no-tree-without-error@ParseConfig", "ParseConfig returned no body but no error diagnostic either", nil)
			}
			return k
		}
		k.walkTree(body)
		if k.st.errFree && len(k.findings) == 0 && k.evalOK {
			k.useConfig(f, body)
		}

	case eParseExpression, eParseTemplate:
		var e hclsyntax.Expression
		var diags hcl.Diagnostics
		pv, st := lib.Guard(func() {
			if entry == eParseExpression {
				e, diags = hclsyntax.ParseExpression(src, fileName, startPos)
			} else {
				e, diags = hclsyntax.ParseTemplate(src, fileName, startPos)
			}
		})
		k.st.dur = time.Since(t0)
		if pv != nil {
			k.panicFinding("parsing", pv, st)
			return k
		}
		k.st.errFree = !diags.HasErrors()
		k.checkDiags(diags, "parse")
		if e == nil || isNilNode(e) {
			if len(diags) == 0 {
				k.report("result:neither-tree-nor-diagnostics@"+entryNames[entry], entryNames[entry]+" returned neither an expression nor a diagnostic", nil)
			} else if !diags.HasErrors() {
				k.report("result:no-tree-without-error@"+entryNames[entry], entryNames[entry]+" returned no expression but no error diagnostic either", nil)
			}
			return k
		}
		k.walkTree(e)
		if k.st.errFree && len(k.findings) == 0 && k.evalOK {
			k.useExpr(e, "native")
		}

	case eParseTraversal:
		var tr hcl.Traversal
		var diags hcl.Diagnostics
		pv, st := lib.Guard(func() { tr, diags = hclsyntax.ParseTraversalAbs(src, fileName, startPos) })
		k.st.dur = time.Since(t0)
		if pv != nil {
			k.panicFinding("parsing", pv, st)
			return k
		}
		k.st.errFree = !diags.HasErrors()
		k.checkDiags(diags, "parse")
		if len(tr) == 0 && len(diags) == 0 {
			k.report("result:neither-tree-nor-diagnostics@ParseTraversalAbs", "ParseTraversalAbs returned neither a traversal nor a diagnostic", nil)
			return k
		}
		k.checkTraversal(tr)
		if k.st.errFree && len(k.findings) == 0 && k.evalOK {
			k.useTraversal(tr)
		}

	case eJSON:
		var f *hcl.File
		var diags hcl.Diagnostics
		pv, st := lib.Guard(func() { f, diags = hcljson.Parse(src, fileName) })
		k.st.dur = time.Since(t0)
		if pv != nil {
			k.panicFinding("parsing", pv, st)
			return k
		}
		k.st.errFree = !diags.HasErrors()
		k.checkDiags(diags, "parse")
		if f == nil || f.Body == nil {
			if len(diags) == 0 {
				k.report("result:neither-tree-nor-diagnostics@json.Parse", "json.Parse returned neither a body nor a diagnostic", nil)
			} else if !diags.HasErrors() {
				k.report("result:no-tree-without-error@json.Parse", "json.Parse returned no body but no error diagnostic either", nil)
			}
			return k
		}
		k.walkJSON(f)
	}
	return k
}
