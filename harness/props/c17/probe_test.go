package c17

import (
	"fmt"
	"math/rand"
	"os"
	"runtime/pprof"
	"syscall"
	"testing"
	"time"

	"verifh/lib"
)

// go test -run TestProbe with C17_IN='text' [C17_ENTRY=name]
func TestProbe(t *testing.T) {
	in := os.Getenv("C17_IN")
	if f := os.Getenv("C17_FILE"); f != "" {
		b, _ := os.ReadFile(f)
		in = string(b)
	}
	for e := 0; e < nEntries; e++ {
		if n := os.Getenv("C17_ENTRY"); n != "" && n != entryNames[e] {
			continue
		}
		k := runEntry(e, []byte(in))
		fmt.Printf("%-18s errFree=%v nodes=%d tokens=%d diags=%d dur=%v\n", entryNames[e], k.st.errFree, k.st.nodes, k.st.tokens, k.st.diags, k.st.dur)
		for _, f := range k.findings {
			fmt.Printf("    %s\n      %s\n", f.Sig, f.What)
		}
	}
}

func TestProfile(t *testing.T) {
	if os.Getenv("C17_PROF") == "" {
		t.Skip()
	}
	dir := t.TempDir()
	os.Setenv("VERIF_REPO", "/repo")
	c := lib.NewCtx("C17", os.Getenv("C17_TIER"), 1, 0, 16, dir)
	f, _ := os.Create(os.Getenv("C17_PROF"))
	pprof.StartCPUProfile(f)
	run(c)
	pprof.StopCPUProfile()
	f.Close()
	c.Finish()
	b, _ := os.ReadFile(dir + "/result-0.json")
	os.WriteFile(os.Getenv("C17_PROF")+".result.json", b, 0o644)
}

func TestCPU(t *testing.T) {
	if os.Getenv("C17_CPU") == "" {
		t.Skip()
	}
	os.Setenv("VERIF_REPO", "/repo")
	corpus, _ := loadCorpus()
	r := rand.New(rand.NewSource(5))
	g := &gen{r: r}
	var ins [][]byte
	for i := 0; i < 20000; i++ {
		p, _ := g.program()
		s := []byte(p)
		if i%2 == 0 {
			s = mutateOnce(r, s, corpus[r.Intn(len(corpus))].data)
		}
		ins = append(ins, s)
	}
	var ru0, ru1 syscall.Rusage
	syscall.Getrusage(syscall.RUSAGE_SELF, &ru0)
	tot := 0
	var per [nEntries]time.Duration
	for _, in := range ins {
		tot += len(in)
		for e := 0; e < nEntries; e++ {
			t0 := time.Now()
			runEntry(e, in)
			per[e] += time.Since(t0)
		}
	}
	syscall.Getrusage(syscall.RUSAGE_SELF, &ru1)
	cpu := time.Duration(ru1.Utime.Nano()+ru1.Stime.Nano()-ru0.Utime.Nano()-ru0.Stime.Nano())
	fmt.Printf("inputs=%d avg len=%d cpu=%v per input=%v\n", len(ins), tot/len(ins), cpu, cpu/time.Duration(len(ins)))
	for e := 0; e < nEntries; e++ {
		fmt.Printf("  %-18s wall %v\n", entryNames[e], per[e])
	}
}
