package c17

import (
	"fmt"
	"math/rand"
	"strings"
)

// Grammar-driven generator of small yaotl programs: configuration files, expressions,
// templates, traversals and JSON documents. Programs are syntactically valid by
// construction (so that the error-free path — evaluation and decoding — is reached);
// the mutators then damage them.

type gen struct {
	r     *rand.Rand
	depth int
}

func (g *gen) pick(xs ...string) string { return xs[g.r.Intn(len(xs))] }
func (g *gen) chance(p float64) bool    { return g.r.Float64() < p }

var identPool = []string{"a", "b", "c", "t", "f", "l", "m", "o", "tup", "set", "nul", "u", "d", "foo", "bar", "var",
	"name", "count", "list", "tags", "expr", "x", "y", "k", "v", "i", "each", "Host", "Port", "ünï", "a-b", "_p", "a1"}

var blockTypes = []string{"service", "block", "b", "Teamserver", "Operators", "user", "Listeners", "Http", "Demon", "dynamic", "function", "resource"}
var funcNames = []string{"upper", "lower", "length", "concat", "join", "split", "format", "min", "max", "keys", "values", "lookup",
	"element", "range", "coalesce", "merge", "jsonencode", "jsondecode", "try", "can", "nosuch"}

func (g *gen) ident() string { return identPool[g.r.Intn(len(identPool))] }

func (g *gen) ws() string {
	switch g.r.Intn(12) {
	case 0:
		return "  "
	case 1:
		return "\t"
	case 2:
		return ""
	case 3:
		return " /* c */ "
	}
	return " "
}

// nl is a line end: LF, CRLF or a comment that swallows the line end.
func (g *gen) nl() string {
	switch g.r.Intn(14) {
	case 0:
		return "\r\n"
	case 1:
		return " # comment\n"
	case 2:
		return " // comment\n"
	case 3:
		return "\n\n"
	}
	return "\n"
}

func (g *gen) number() string {
	switch g.r.Intn(8) {
	case 0:
		return "0"
	case 1:
		return fmt.Sprint(g.r.Intn(100000))
	case 2:
		return fmt.Sprintf("%d.%d", g.r.Intn(100), g.r.Intn(1000))
	case 3:
		return fmt.Sprintf("%de%d", g.r.Intn(9)+1, g.r.Intn(20))
	case 4:
		return fmt.Sprintf("%d.%dE-%d", g.r.Intn(9), g.r.Intn(99), g.r.Intn(9))
	case 5:
		return "12345678901234567890123456789"
	}
	return fmt.Sprint(g.r.Intn(10))
}

var litChunks = []string{"hello", " ", "wörld", "$", "%", "$$", "%%", "$${", "%%{", "a b", "日本", "\\n", "\\t", "\\\"", "\\\\", "\\u00e9", "\\U0001F600", "\\ud800", "\\U00110000", "\\uDFFF", "\\x41", "\\x4",
	"{", "}", "#", "//", "/*", "'", "=", "<<EOT", "é", "e\u0301", "🙂", "~", "$ {", "% {"}

// quotedBody generates the inside of a "..." template.
func (g *gen) quotedBody() string {
	var sb strings.Builder
	n := g.r.Intn(4)
	for i := 0; i < n; i++ {
		switch g.r.Intn(7) {
		case 0:
			sb.WriteString(g.interp())
		case 1:
			if g.depth < 4 {
				sb.WriteString(g.directive(true))
			}
		default:
			sb.WriteString(g.pick(litChunks...))
		}
	}
	return sb.String()
}

func (g *gen) interp() string {
	g.depth++
	defer func() { g.depth-- }()
	o, c := "${", "}"
	if g.chance(0.15) {
		o = "${~"
	}
	if g.chance(0.15) {
		c = "~}"
	}
	return o + g.ws() + g.expr() + g.ws() + c
}

func (g *gen) tag(body string) string {
	o, c := "%{", "}"
	if g.chance(0.2) {
		o = "%{~"
	}
	if g.chance(0.2) {
		c = "~}"
	}
	return o + g.ws() + body + g.ws() + c
}

// directive generates %{if}/%{for}; quoted=true keeps the text free of raw newlines.
func (g *gen) directive(quoted bool) string {
	g.depth++
	defer func() { g.depth-- }()
	text := func() string {
		if quoted {
			return g.quotedBody()
		}
		return g.heredocText()
	}
	if g.chance(0.5) {
		s := g.tag("if "+g.expr()) + text()
		if g.chance(0.5) {
			s += g.tag("else") + text()
		}
		return s + g.tag("endif")
	}
	v := g.pick("x", "k, v", "i")
	return g.tag("for "+v+" in "+g.expr()) + text() + g.tag("endfor")
}

func (g *gen) heredocText() string {
	var sb strings.Builder
	n := g.r.Intn(5)
	for i := 0; i < n; i++ {
		switch g.r.Intn(8) {
		case 0:
			sb.WriteString(g.interp())
		case 1:
			if g.depth < 4 {
				sb.WriteString(g.directive(false))
			}
		case 2:
			sb.WriteString("\n")
		case 3:
			sb.WriteString("  ")
		default:
			sb.WriteString(g.pick("line", "  indented", "\"quoted\"", "$", "%", "$${x}", "%%{y}", "EO", "a = b", "\\n", "ü", "\t"))
		}
	}
	return sb.String()
}

func (g *gen) heredoc() string {
	marker := g.pick("EOT", "EOF", "E", "END_1", "Ü")
	op := "<<"
	if g.chance(0.4) {
		op = "<<-"
	}
	eol := "\n"
	if g.chance(0.1) {
		eol = "\r\n"
	}
	body := g.heredocText()
	if body != "" && !strings.HasSuffix(body, "\n") {
		body += eol
	}
	ind := ""
	if op == "<<-" {
		ind = g.pick("", "  ", "\t")
	}
	return op + marker + eol + body + ind + marker + eol
}

func (g *gen) stringLit() string { return `"` + g.quotedBody() + `"` }

func (g *gen) traversal() string {
	s := g.ident()
	n := g.r.Intn(4)
	for i := 0; i < n; i++ {
		switch g.r.Intn(9) {
		case 8:
			// an index written as any kind of number-like literal (what the scanner takes for a
			// number is not always one), now and then without its closing bracket
			key := g.pick(g.number(), "1.2.3", "1..2", "1e2e3", "1e", "1.", "0x1F", "1_000", "07", "1.5", "-1", "1e400", "99999999999999999999")
			s += "[" + key + g.pick("]", "]", "]", "", " .", " ]")
		case 0:
			s += "[" + fmt.Sprint(g.r.Intn(4)) + "]"
		case 1:
			s += `["` + g.pick("k1", "n", "s", "zz") + `"]`
		case 2:
			s += "." + fmt.Sprint(g.r.Intn(3))
		case 3:
			s += ".*"
		case 4:
			s += "[*]"
		case 5:
			// a key that is itself a variable (null, unknown, dynamic, wrong type ...): an IndexExpr
			s += "[" + g.pick("a", "b", "t", "c", "nul", "dn", "u", "d", "sens", "zz", "a - 1", "\"k${a}\"") + "]"
		default:
			s += "." + g.pick("n", "s", "l", "o", "k", "x", "list", "zz")
		}
	}
	return s
}

// expr generates one expression. nlOK: whether a bare newline may appear at this level
// (inside brackets); heredocs are only placed where a following newline is harmless.
func (g *gen) expr() string {
	if g.depth > 5 {
		return g.atom()
	}
	g.depth++
	defer func() { g.depth-- }()
	switch g.r.Intn(22) {
	case 0, 1:
		return g.expr() + g.ws() + g.pick("+", "-", "*", "/", "%", "==", "!=", "<", ">", "<=", ">=", "&&", "||") + g.ws() + g.expr()
	case 2:
		return g.pick("!", "-") + g.expr()
	case 3:
		return g.expr() + " ? " + g.expr() + " : " + g.expr()
	case 4:
		return "(" + g.ws() + g.expr() + g.ws() + ")"
	case 5:
		return g.tuple()
	case 6:
		return g.object()
	case 7:
		return g.forExpr()
	case 8:
		return g.call()
	case 9:
		return g.expr() + "[" + g.expr() + "]"
	case 10:
		return g.expr() + "." + g.pick("n", "s", "0", "*", "zz")
	case 11:
		return g.stringLit()
	case 12:
		return g.traversal()
	case 13:
		return "(" + g.expr() + ")" + g.pick(".*", "[*]") + g.pick("", ".n", "[0]")
	}
	return g.atom()
}

func (g *gen) atom() string {
	switch g.r.Intn(9) {
	case 0:
		return g.number()
	case 1:
		return g.pick("true", "false", "null")
	case 2:
		return g.stringLit()
	case 3:
		return g.traversal()
	case 4:
		return `"` + g.pick("plain", "", "k1", "with space") + `"`
	}
	return g.ident()
}

func (g *gen) sep() string {
	if g.chance(0.25) {
		return "," + g.nl()
	}
	return "," + g.ws()
}

func (g *gen) tuple() string {
	n := g.r.Intn(4)
	var xs []string
	for i := 0; i < n; i++ {
		xs = append(xs, g.expr())
	}
	s := "[" + g.ws() + strings.Join(xs, g.sep())
	if n > 0 && g.chance(0.2) {
		s += ","
	}
	if g.chance(0.1) {
		s += "\n"
	}
	return s + "]"
}

func (g *gen) object() string {
	n := g.r.Intn(4)
	var sb strings.Builder
	sb.WriteString("{")
	if g.chance(0.4) {
		sb.WriteString("\n")
	}
	for i := 0; i < n; i++ {
		var key string
		switch g.r.Intn(5) {
		case 0:
			key = g.stringLit()
		case 1:
			key = "(" + g.expr() + ")"
		case 2:
			key = g.traversal()
		default:
			key = g.ident()
		}
		sb.WriteString(key + g.ws() + g.pick("=", ":", "=") + g.ws() + g.expr())
		if i < n-1 || g.chance(0.3) {
			sb.WriteString(g.pick(",", "\n", ",\n"))
		}
	}
	sb.WriteString("}")
	return sb.String()
}

func (g *gen) forExpr() string {
	vars := g.pick("x", "k, v", "i, each")
	coll := g.pick("l", "m", "o", "tup", "set", "e", "ul", "nul", "d")
	if g.chance(0.3) {
		coll = g.expr()
	}
	cond := ""
	if g.chance(0.4) {
		cond = " if " + g.expr()
	}
	if g.chance(0.5) {
		return "[" + g.ws() + "for " + vars + " in " + coll + " : " + g.expr() + cond + "]"
	}
	grp := ""
	if g.chance(0.3) {
		grp = "..."
	}
	return "{" + g.ws() + "for " + vars + " in " + coll + " : " + g.expr() + " => " + g.expr() + grp + cond + "}"
}

func (g *gen) call() string {
	n := g.r.Intn(4)
	var xs []string
	for i := 0; i < n; i++ {
		xs = append(xs, g.expr())
	}
	s := g.pick(funcNames...) + "(" + strings.Join(xs, g.sep())
	if n > 0 && g.chance(0.15) {
		s += "..."
	}
	return s + ")"
}

// ---- configuration files

func (g *gen) attr(indent string) string {
	name := g.ident()
	eq := g.pick(" = ", "=", " =", "\t= ")
	if g.chance(0.15) {
		return indent + name + eq + g.heredoc() // the heredoc ends with its own newline
	}
	return indent + name + eq + g.expr() + g.nl()
}

func (g *gen) block(indent string, depth int) string {
	var sb strings.Builder
	sb.WriteString(indent + g.pick(blockTypes...))
	nl := g.r.Intn(3)
	for i := 0; i < nl; i++ {
		if g.chance(0.7) {
			sb.WriteString(` "` + g.pick("http", "web", "a b", "l0", "ü") + `"`)
		} else {
			sb.WriteString(" " + g.ident())
		}
	}
	sb.WriteString(" {")
	switch {
	case g.chance(0.12):
		sb.WriteString("}" + g.nl())
	case g.chance(0.12):
		sb.WriteString(" " + g.ident() + " = " + g.atom() + " }" + g.nl())
	default:
		sb.WriteString(g.nl())
		sb.WriteString(g.body(indent+"  ", depth+1))
		sb.WriteString(indent + "}" + g.nl())
	}
	return sb.String()
}

func (g *gen) body(indent string, depth int) string {
	var sb strings.Builder
	n := g.r.Intn(5)
	used := map[string]bool{}
	for i := 0; i < n; i++ {
		if depth < 4 && g.chance(0.35) {
			sb.WriteString(g.block(indent, depth))
			continue
		}
		a := g.attr(indent)
		name := strings.TrimSpace(strings.SplitN(a, "=", 2)[0])
		if used[name] && g.chance(0.9) {
			continue
		}
		used[name] = true
		sb.WriteString(a)
	}
	return sb.String()
}

func (g *gen) config() string {
	s := ""
	if g.chance(0.03) {
		s = "\xef\xbb\xbf"
	}
	if g.chance(0.1) {
		s += g.pick("# leading comment\n", "/* block\n comment */\n", "\n", "  \n")
	}
	s += g.body("", 0)
	if g.chance(0.1) {
		s = strings.TrimSuffix(s, "\n")
	}
	return s
}

// a file shaped like /repo/profiles/*.yaotl
func (g *gen) profileLike() string {
	var sb strings.Builder
	sb.WriteString("Teamserver {\n    Host = " + g.stringLit() + "\n    Port = " + g.number() + "\n")
	if g.chance(0.5) {
		sb.WriteString("    Build {\n        Compiler64 = \"x86_64-w64-mingw32-gcc\"\n        Nasm = " + g.stringLit() + "\n    }\n")
	}
	sb.WriteString("}\n\nOperators {\n")
	for i := 0; i < g.r.Intn(3); i++ {
		sb.WriteString("    user \"" + g.pick("5pider", "Neo", "ü") + "\" {\n        Password = " + g.stringLit() + "\n    }\n")
	}
	sb.WriteString("}\n")
	if g.chance(0.6) {
		sb.WriteString("Listeners {\n    Http {\n        Name = \"l\"\n        Hosts = " + g.tuple() + "\n        HostBind = \"0.0.0.0\"\n        HostRotation = \"round-robin\"\n        PortBind = " + g.number() +
			"\n        Secure = " + g.pick("true", "false") + "\n        Response {\n            Headers = [ \"Content-type: text/plain\" ]\n        }\n    }\n}\n")
	}
	if g.chance(0.6) {
		sb.WriteString("Demon {\n    Sleep = " + g.number() + "\n    Injection {\n        Spawn64 = \"C:\\\\Windows\\\\System32\\\\notepad.exe\"\n    }\n}\n")
	}
	return sb.String()
}

// ---- templates (ParseTemplate input: bare template, newlines allowed)

func (g *gen) template() string {
	return g.heredocText()
}

// ---- JSON

func (g *gen) jsonString() string {
	var sb strings.Builder
	sb.WriteByte('"')
	n := g.r.Intn(3)
	for i := 0; i < n; i++ {
		switch g.r.Intn(6) {
		case 0:
			sb.WriteString("${" + strings.NewReplacer(`"`, `\"`, "\n", `\n`, "\r", `\r`, "\t", `\t`, `\`, `\\`).Replace(g.expr()) + "}")
		case 1:
			sb.WriteString(g.pick(`\n`, `\"`, `\\`, `\u00e9`, `\ud83d\ude00`, `\/`, `\t`))
		default:
			sb.WriteString(g.pick("text", " ", "é", "k1", "$", "%", "%{if true}y%{endif}", "🙂"))
		}
	}
	sb.WriteByte('"')
	return sb.String()
}

func (g *gen) jsonValue(depth int) string {
	if depth > 4 {
		return g.pick("1", `"s"`, "true", "null")
	}
	switch g.r.Intn(9) {
	case 0:
		return g.number()
	case 1:
		return g.pick("true", "false", "null")
	case 2, 3:
		return g.jsonString()
	case 4:
		n := g.r.Intn(4)
		var xs []string
		for i := 0; i < n; i++ {
			xs = append(xs, g.jsonValue(depth+1))
		}
		return "[" + g.jws() + strings.Join(xs, ","+g.jws()) + g.jws() + "]"
	case 5:
		return "-" + g.number()
	}
	return g.jsonObject(depth + 1)
}

func (g *gen) jws() string { return g.pick("", "", " ", "\n", "\t", "\r\n", "  ") }

func (g *gen) jsonObject(depth int) string {
	n := g.r.Intn(4)
	var xs []string
	for i := 0; i < n; i++ {
		key := g.pick("name", "a", "count", "list", "service", "block", "b", "//", "x", "Teamserver", "Host", "Port", "ü", "k1", "a")
		if depth > 0 && g.chance(0.2) {
			// property names of object values are templates: evaluated when the value is
			key = g.pick("${b}", "${a}", "${nul}", "${dn}", "${null}", "x${nul}", "${t}", "${u}", "${d}", "${o.z}", "${l}", "${sens}", "%{if t}k%{endif}", "${upper(b)}", "${nosuch}", "$${a}", "${")
		}
		xs = append(xs, g.jws()+`"`+key+`"`+g.jws()+":"+g.jws()+g.jsonValue(depth))
	}
	return "{" + strings.Join(xs, ",") + g.jws() + "}"
}

func (g *gen) jsonDoc() string {
	if g.chance(0.06) {
		// a file saved with a byte order mark
		return "\xef\xbb\xbf" + g.jsonObject(0) + g.jws()
	}
	if g.chance(0.1) {
		return "[" + g.jsonObject(0) + "," + g.jsonObject(0) + "]"
	}
	return g.jws() + g.jsonObject(0) + g.jws()
}

// program returns one generated program and the mode it was generated for.
func (g *gen) program() (string, string) {
	g.depth = 0
	switch g.r.Intn(12) {
	case 0, 1, 2, 3:
		return g.config(), "config"
	case 4:
		return g.profileLike(), "config"
	case 5, 6:
		return g.expr(), "expression"
	case 7, 8:
		return g.template(), "template"
	case 9:
		return g.traversal(), "traversal"
	}
	return g.jsonDoc(), "json"
}

// ---- token soup: random sequences of lexemes of all the syntaxes

var lexemes = []string{
	"{", "}", "[", "]", "(", ")", ".", ",", "*", "/", "%", "+", "-", "=", "<", ">", "!", "?", ":", "\n", "&", "|", "~", "^", ";", "`", "'",
	"==", "!=", ">=", "<=", "&&", "||", "...", "=>", "${", "%{", "${~", "%{~", "~}", "\"", "<<EOT\n", "<<-EOT\n", "EOT\n", "EOT", "<<", "<<-",
	"#", "//", "/*", "*/", "\r\n", "\r", " ", "\t", "for", "in", "if", "else", "endif", "endfor", "true", "false", "null",
	"a", "b", "foo", "x", "0", "1", "1.5", "1e", "1e5", ".5", "0x1f", "\\", "\\\"", "\\u", "\\u12", "\\U0001F600", "\\ud800", "\\UFFFFFFFF", "\\x", "\\xZ", "$", "$$", "$${", "%%", "%%{",
	"é", "日", "\xff", "\xc3", "\xe2\x82", "\xf0\x9f", "\x00", "\xef\xbb\xbf", "\u2028", "\u0085", "“", "”", "e\u0301",
	"\"k\"", "\"k\":", ":", "[{", "}]", "null", "-1", "1E+2", "\"${", "\"%{",
}

func (g *gen) soup(n int) string {
	var sb strings.Builder
	for i := 0; i < n; i++ {
		sb.WriteString(lexemes[g.r.Intn(len(lexemes))])
		if g.chance(0.2) {
			sb.WriteByte(' ')
		}
	}
	return sb.String()
}
