package c17

import (
	"encoding/hex"
	"encoding/json"
	"fmt"
	"math/rand"
	"os"
	"path/filepath"
	"sort"
	"strings"
	"syscall"
	"unicode/utf8"

	"verifh/lib"
)

func init() { lib.Register("C17", run) }

type seed struct {
	name string
	data []byte
}

type work struct {
	c       *lib.Ctx
	g       *gen
	corpus  []seed
	sigSeen map[string]int
	done    int
}

// loadCorpus reads every in-tree sample of the yaotl syntaxes (fuzz corpora, the
// specification suite, the shipped profiles, testdata) in a fixed order.
func loadCorpus() ([]seed, error) {
	repo := os.Getenv("VERIF_REPO")
	if repo == "" {
		repo = "/repo"
	}
	ya := filepath.Join(repo, "teamserver", "pkg", "profile", "yaotl")
	var files []string
	add := func(root string, keep func(path string) bool) {
		filepath.Walk(root, func(p string, info os.FileInfo, err error) error {
			if err != nil || info.IsDir() {
				return nil
			}
			if keep(p) && info.Size() <= maxInput {
				files = append(files, p)
			}
			return nil
		})
	}
	add(ya, func(p string) bool {
		s := filepath.ToSlash(p)
		if strings.Contains(s, "/corpus/") || strings.Contains(s, "/testdata/") || strings.Contains(s, "/test-fixtures/") {
			return true
		}
		if strings.Contains(s, "/specsuite/tests/") {
			return strings.HasSuffix(s, ".hcl") || strings.HasSuffix(s, ".json") || strings.HasSuffix(s, ".hcldec") || strings.HasSuffix(s, ".t")
		}
		return false
	})
	add(filepath.Join(repo, "profiles"), func(p string) bool { return true })
	add(filepath.Join(repo, "teamserver", "data"), func(p string) bool { return strings.HasSuffix(p, ".yaotl") })
	root := os.Getenv("VERIF_ROOT")
	if root == "" {
		root = "/verif"
	}
	add(filepath.Join(root, "corpus", "c17"), func(p string) bool { return true })
	sort.Strings(files)
	var out []seed
	for _, p := range files {
		b, err := os.ReadFile(p)
		if err != nil {
			continue
		}
		rel := strings.TrimPrefix(p, repo+"/")
		out = append(out, seed{rel, b})
	}
	if len(out) < 20 {
		return out, fmt.Errorf("only %d corpus files found under %s (VERIF_REPO)", len(out), repo)
	}
	return out, nil
}

type witness struct {
	Entry     string         `json:"entry"`
	InputHex  string         `json:"input_hex"`
	InputText string         `json:"input_text,omitempty"`
	Len       int            `json:"len"`
	Category  string         `json:"category,omitempty"`
	OrigLen   int            `json:"original_len,omitempty"`
	Expected  string         `json:"expected"`
	Observed  string         `json:"observed"`
	Detail    map[string]any `json:"detail,omitempty"`
	Cur       *struct {
		Kind string `json:"kind"`
		Hex  string `json:"hex"`
	} `json:"cur,omitempty"`
}

func mkWitness(entry int, src []byte, cat string, origLen int, f finding) witness {
	w := witness{Entry: entryNames[entry], InputHex: hex.EncodeToString(src), Len: len(src), Category: cat, OrigLen: origLen,
		Expected: expectedFor(f.Sig), Observed: f.What, Detail: f.Detail}
	if utf8.Valid(src) && len(src) <= 400 {
		w.InputText = string(src)
	}
	return w
}

func expectedFor(sig string) string {
	switch {
	case strings.HasPrefix(sig, "panic:"):
		return "no panic: a tree and/or diagnostics; an error-free result can be evaluated and decoded"
	case strings.HasPrefix(sig, "token:"):
		return "tokens in source order, no overlap, Bytes == input[Range], only blanks between tokens, EOF last at len(input)"
	case strings.HasPrefix(sig, "range:child"):
		return "a child node's range lies inside its parent's range"
	case strings.HasPrefix(sig, "range:"):
		return "0 <= Start.Byte <= End.Byte <= len(input)"
	}
	return "a syntax tree and/or diagnostics"
}

func hasSig(fs []finding, sig string) bool {
	for _, f := range fs {
		if f.Sig == sig {
			return true
		}
	}
	return false
}

// minimise shrinks src while (entry, src) still yields a finding with the same signature:
// deterministic chunk removal (ddmin style), bounded number of executions.
func (w *work) minimise(entry int, src []byte, sig string) []byte {
	budget := 1500
	test := func(cand []byte) bool {
		if budget <= 0 {
			return false
		}
		budget--
		w.c.Cur("minimise:"+entryNames[entry], cand)
		return hasSig(runEntry(entry, cand).findings, sig)
	}
	cur := append([]byte(nil), src...)
	// truncation first (cheap and very effective for nesting inputs)
	for len(cur) > 1 {
		half := cur[:len(cur)/2]
		if test(half) {
			cur = append([]byte(nil), half...)
			continue
		}
		half = cur[len(cur)/2:]
		if test(half) {
			cur = append([]byte(nil), half...)
			continue
		}
		break
	}
	chunk := len(cur) / 2
	for chunk >= 1 && budget > 0 {
		removed := false
		for at := 0; at+chunk <= len(cur) && budget > 0; {
			cand := append(append([]byte(nil), cur[:at]...), cur[at+chunk:]...)
			if test(cand) {
				cur = cand
				removed = true
			} else {
				at += chunk
			}
		}
		if chunk == 1 {
			if !removed {
				break
			}
			continue
		}
		chunk /= 2
	}
	return cur
}

var sizeClass = func(n int) string {
	switch {
	case n <= 256:
		return "le256B"
	case n <= 4096:
		return "le4KiB"
	}
	return "le64KiB"
}

// one runs every entry point on one input.
func (w *work) one(cat string, src []byte) {
	c := w.c
	src = capLen(src)
	c.Cur(cat, src)
	c.Eval()
	c.Observe("inputs:"+strings.SplitN(cat, ":", 2)[0], 1)
	nontrivial := false
	for e := 0; e < nEntries; e++ {
		k := runEntry(e, src)
		en := entryNames[e]
		st := &k.st
		if e == eLexConfig && st.nonEOF > 0 {
			nontrivial = true
		}
		if st.panicked {
			c.Observe(en+":panic", 1)
		} else if st.errFree {
			c.Observe(en+":diagnostic-free", 1)
		} else {
			c.Observe(en+":with-error-diagnostics", 1)
		}
		if st.tokens > 0 {
			c.Observe("tokens_checked", int64(st.tokens))
		}
		if st.relexChecked > 0 {
			c.Observe("token_lists_rechecked_after_a_later_lex", int64(st.relexChecked))
		}
		if st.nodes > 0 {
			c.Observe("nodes_walked", int64(st.nodes))
			c.ObserveMax("max:tree_depth:"+en, int64(st.maxDepth))
		}
		c.Observe("ranges_checked", int64(st.ranges))
		c.Observe("diagnostics_checked", int64(st.diags))
		if st.evalSkip && st.errFree {
			c.Observe("error_free_results_not_evaluated_as_explosive", 1)
		}
		if st.evaluated > 0 {
			c.Observe("evaluations_of_error_free_results", int64(st.evaluated))
		}
		if st.decoded > 0 {
			c.Observe("decodes_of_error_free_bodies", int64(st.decoded))
		}
		if st.jsonAttrs+st.jsonBlocks > 0 {
			c.Observe("json_properties_walked", int64(st.jsonAttrs))
			c.Observe("json_blocks_walked", int64(st.jsonBlocks))
			c.Observe("json_name_ranges_compared_with_the_name", int64(st.jsonNames))
		}
		// evidence only: never a verdict
		c.ObserveMax("max:parse_wall_us:"+en+":"+sizeClass(len(src)), st.dur.Microseconds())
		for _, f := range k.findings {
			w.sigSeen[f.Sig]++
			min := src
			if w.sigSeen[f.Sig] <= 3 {
				min = w.minimise(e, src, f.Sig)
				// report the finding as it shows on the minimised input
				for _, f2 := range runEntry(e, min).findings {
					if f2.Sig == f.Sig {
						f = f2
						break
					}
				}
				c.Cur(cat, src)
			}
			c.Violation(f.Sig, f.What, mkWitness(e, min, cat, len(src), f))
		}
	}
	c.ObserveMax("max:input_len", int64(len(src)))
	if nontrivial {
		c.DistinctBytes(src)
	}
	c.SampleSome(5000, func() any {
		s := src
		if len(s) > 160 {
			s = s[:160]
		}
		return map[string]any{"category": cat, "len": len(src), "input_prefix": strings.ToValidUTF8(string(s), "�")}
	})
	w.done++
	if w.done%20000 == 0 {
		c.Checkpoint()
	}
}

func replay(c *lib.Ctx) {
	var wit witness
	if err := json.Unmarshal(c.Replay, &wit); err != nil {
		c.Inconclusive("replay witness is not readable: " + err.Error())
		return
	}
	w := &work{c: c, sigSeen: map[string]int{}}
	hx, entries := wit.InputHex, []int{}
	if wit.Cur != nil && wit.InputHex == "" { // witness of a fatal error / hang written by the driver
		hx = wit.Cur.Hex
	}
	src, err := hex.DecodeString(hx)
	if err != nil {
		c.Inconclusive("replay witness has no decodable input: " + err.Error())
		return
	}
	if e := entryByName(wit.Entry); e >= 0 {
		entries = []int{e}
	} else {
		for e := 0; e < nEntries; e++ {
			entries = append(entries, e)
		}
	}
	c.Cur("replay", src)
	c.Eval()
	c.DistinctBytes(src)
	for _, e := range entries {
		for _, f := range runEntry(e, src).findings {
			c.Violation(f.Sig, f.What, mkWitness(e, src, "replay", len(src), f))
		}
	}
	_ = w
}

func run(c *lib.Ctx) {
	c.Rule("one case = one byte string (<= 64 KiB) given to all 8 entry points (LexConfig, LexExpression, LexTemplate, ParseConfig, " +
		"ParseExpression, ParseTemplate, ParseTraversalAbs, json.Parse); generated as: every in-tree corpus file, every prefix of every corpus " +
		"file and of grammar-generated programs (truncation at every offset), bracket/template/heredoc nesting patterns at fixed depths in 5 " +
		"closing variants, random bytes, random lexeme sequences, grammar-generated configs/expressions/templates/traversals/JSON, and 1-4 " +
		"stacked mutations of those (bit flips, inserts incl. invalid UTF-8, deletions, duplications, splices, truncation, bracket swaps, " +
		"repeats, newline rewrites); distinct non-trivial = distinct input bytes for which LexConfig produced at least one token besides EOF")
	c.Assume("hcl.Pos{Line:1,Column:1,Byte:0} is the start position, so byte offsets of ranges index the input directly",
		"a UTF-8 byte-order mark at offset 0 is dropped by the scanner by design; it is the only non-blank the token check lets go uncovered",
		"Range() of the grouping nodes hclsyntax.Attributes / hclsyntax.Blocks is documented as arbitrary; they are transparent for the child-inside-parent check",
		"line/column numbers are not judged (the statement speaks of ranges inside the input), only byte offsets",
		"go-cty and go-textseg behave as the yaotl code expects",
		"wall time is recorded (max:parse_wall_us:*, meaningless on a loaded machine) but never judged; a hang is the driver's watchdog's business",
		"diagnostics, traversal steps (Variables, AbsTraversalForExpr) and call ranges (ExprCall) of templates inside JSON strings are position-checked only when the JSON text has no escapes and is valid UTF-8 (json/structure.go documents these positions as approximate otherwise: they are computed over the decoded text)",
		"error-free results of inputs with an exponent of 5+ digits or more than 10 '*' bytes are parsed, lexed and walked but not evaluated: evaluation cost is exponential in the input length there (number printing, chained splats), which the statement does not forbid and the monitor cannot interrupt",
		"the evaluation context's own functions exclude range() and format(), whose result size is an argument")
	// safety net on a shared machine: a memory explosion in the code under test becomes a
	// "fatal error: out of memory" of this worker (reported by the driver with the current
	// input) instead of an OOM kill of somebody else
	lim := syscall.Rlimit{Cur: 16 << 30, Max: 16 << 30}
	_ = syscall.Setrlimit(syscall.RLIMIT_AS, &lim)
	if c.Replay != nil {
		replay(c)
		return
	}
	corpus, err := loadCorpus()
	if err != nil {
		c.Inconclusive("corpus: " + err.Error())
	}
	w := &work{c: c, g: &gen{r: c.Rng}, corpus: corpus, sigSeen: map[string]int{}}
	c.Note("corpus_files", len(corpus))
	r := c.Rng
	n := c.N(130000, 3200000)

	// 1. corpus files as they are
	idx := 0
	for _, s := range corpus {
		if c.Mine(idx) {
			w.one("corpus", s.data)
		}
		idx++
	}

	// 2. truncation at every offset: all corpus files up to a size, plus generated programs
	truncLimit, genSeeds := 3000, 12
	if c.Thorough() {
		truncLimit, genSeeds = maxInput, 600
	}
	for _, s := range corpus {
		if len(s.data) > truncLimit {
			continue
		}
		for cut := 0; cut < len(s.data); cut++ {
			if c.Mine(idx) {
				w.one("truncate-corpus", s.data[:cut])
			}
			idx++
		}
	}
	c.Observe("truncation_seeds_exhausted", 0)
	for i := 0; i < genSeeds; i++ {
		p, mode := w.g.program()
		b := capLen([]byte(p))
		if len(b) > 2000 {
			continue
		}
		w.one("generated:"+mode, b)
		for cut := 0; cut < len(b); cut++ {
			w.one("truncate-generated", b[:cut])
		}
		c.Observe("truncation_seeds_exhausted", 1)
	}

	// 3. nesting
	depths := []int{1, 2, 3, 4, 7, 33, 100, 1000, 5000}
	if c.Thorough() {
		depths = append(depths, 2500, 10000, 20000, 70000)
	}
	for _, p := range nestPatterns {
		for _, d := range depths {
			for v := 0; v < nestVariants; v++ {
				if c.Mine(idx) {
					in := nestInput(p, d, v)
					c.ObserveMax("max:nesting_depth_requested", int64(d))
					w.one("nest:"+p.name, in)
				}
				idx++
			}
		}
	}
	c.Checkpoint()

	// 4. random part
	pickSeed := func() []byte {
		if r.Intn(3) == 0 && len(corpus) > 0 {
			return corpus[r.Intn(len(corpus))].data
		}
		p, _ := w.g.program()
		return []byte(p)
	}
	for w.done < n {
		switch x := r.Intn(100); {
		case x < 8: // random bytes
			w.one("random:bytes", randomBytes(r))
		case x < 20: // lexeme soup
			l := 1 + r.Intn(24)
			if r.Intn(60) == 0 {
				l = 200 + r.Intn(3000)
			}
			w.one("random:lexemes", []byte(w.g.soup(l)))
		case x < 42: // generated, unmodified
			p, mode := w.g.program()
			w.one("generated:"+mode, []byte(p))
		case x < 43: // repetition of a seed up to the size bound (parse time vs size)
			s := pickSeed()
			if len(s) == 0 {
				s = []byte("a = 1\n")
			}
			k := 1 + r.Intn(40)
			if r.Intn(12) == 0 {
				k = maxInput / len(s)
			}
			var b []byte
			for i := 0; i < k && len(b)+len(s) <= maxInput; i++ {
				b = append(b, s...)
			}
			w.one("repeat", b)
		default: // mutated seed
			s := pickSeed()
			k := 1 + r.Intn(4)
			for i := 0; i < k; i++ {
				s = mutateOnce(r, s, pickSeedOther(r, corpus, w.g))
			}
			w.one("mutated", s)
		}
	}
}

func pickSeedOther(r *rand.Rand, corpus []seed, g *gen) []byte {
	if r.Intn(2) == 0 && len(corpus) > 0 {
		return corpus[r.Intn(len(corpus))].data
	}
	p, _ := g.program()
	return []byte(p)
}

var syntaxAlphabet = []byte("{}[]()\"$%~<>=.,:?!-+*/\\\n\r\t #ab01EOT'`;&|^_")

func randomBytes(r *rand.Rand) []byte {
	n := 1 + r.Intn(48)
	switch r.Intn(40) {
	case 0:
		n = 1000 + r.Intn(4000)
	case 1:
		n = maxInput - r.Intn(100)
	case 2, 3, 4:
		n = r.Intn(4)
	}
	b := make([]byte, n)
	switch r.Intn(3) {
	case 0:
		for i := range b {
			b[i] = byte(r.Intn(256))
		}
	case 1:
		for i := range b {
			b[i] = byte(0x20 + r.Intn(0x5f))
		}
	default:
		for i := range b {
			b[i] = syntaxAlphabet[r.Intn(len(syntaxAlphabet))]
		}
	}
	return b
}
