package c17

import (
	"bytes"
	"math/rand"
	"strings"
)

const maxInput = 64 << 10

func capLen(b []byte) []byte {
	if len(b) > maxInput {
		return b[:maxInput]
	}
	return b
}

var badUTF8 = [][]byte{
	{0xff}, {0xfe}, {0xc0, 0x80}, {0xc3}, {0xe2, 0x82}, {0xf0, 0x9f, 0x98}, {0x80}, {0xbf, 0xbf},
	{0xed, 0xa0, 0x80}, {0xf4, 0x90, 0x80, 0x80}, {0xf8, 0x88, 0x80, 0x80, 0x80}, {0xc1, 0xbf}, {0xe0, 0x80, 0x80}, {0xef, 0xbb, 0xbf},
}

var brackets = []byte("()[]{}\"'<>$%~")

// mutateOnce applies one random mutation. other is a second seed for splices.
func mutateOnce(r *rand.Rand, src, other []byte) []byte {
	n := len(src)
	pos := func() int {
		if n == 0 {
			return 0
		}
		return r.Intn(n + 1)
	}
	span := func() (int, int) {
		if n == 0 {
			return 0, 0
		}
		a := r.Intn(n)
		l := 1 + r.Intn(minInt(n-a, 1+r.Intn(32)))
		return a, a + l
	}
	out := make([]byte, 0, n+64)
	switch r.Intn(15) {
	case 0: // flip one bit
		if n == 0 {
			return []byte{byte(r.Intn(256))}
		}
		out = append(out, src...)
		out[r.Intn(n)] ^= 1 << uint(r.Intn(8))
	case 1: // overwrite one byte
		if n == 0 {
			return []byte{byte(r.Intn(256))}
		}
		out = append(out, src...)
		out[r.Intn(n)] = byte(r.Intn(256))
	case 2: // insert a random byte
		p := pos()
		out = append(append(append(out, src[:p]...), byte(r.Intn(256))), src[p:]...)
	case 3: // insert a lexeme
		p := pos()
		out = append(append(append(out, src[:p]...), lexemes[r.Intn(len(lexemes))]...), src[p:]...)
	case 4: // insert invalid UTF-8
		p := pos()
		out = append(append(append(out, src[:p]...), badUTF8[r.Intn(len(badUTF8))]...), src[p:]...)
	case 5: // delete a span
		a, b := span()
		out = append(append(out, src[:a]...), src[b:]...)
	case 6: // duplicate a span in place
		a, b := span()
		out = append(append(append(out, src[:b]...), src[a:b]...), src[b:]...)
	case 7: // copy a span elsewhere
		a, b := span()
		p := pos()
		out = append(append(append(out, src[:p]...), src[a:b]...), src[p:]...)
	case 8: // splice: head of src + tail of other
		p := pos()
		q := 0
		if len(other) > 0 {
			q = r.Intn(len(other) + 1)
		}
		out = append(append(out, src[:p]...), other[q:]...)
	case 9: // truncate
		out = append(out, src[:pos()]...)
	case 10: // replace a bracket-like byte by another
		out = append(out, src...)
		var idx []int
		for i, ch := range out {
			if bytes.IndexByte(brackets, ch) >= 0 {
				idx = append(idx, i)
			}
		}
		if len(idx) > 0 {
			out[idx[r.Intn(len(idx))]] = brackets[r.Intn(len(brackets))]
		} else if n > 0 {
			out[r.Intn(n)] = brackets[r.Intn(len(brackets))]
		}
	case 11: // repeat a span many times
		a, b := span()
		k := 2 + r.Intn(60)
		out = append(out, src[:a]...)
		for i := 0; i < k && len(out) < maxInput; i++ {
			out = append(out, src[a:b]...)
		}
		out = append(out, src[b:]...)
	case 12: // drop a line
		lines := bytes.SplitAfter(src, []byte("\n"))
		if len(lines) > 1 {
			d := r.Intn(len(lines))
			for i, l := range lines {
				if i != d {
					out = append(out, l...)
				}
			}
		} else {
			out = append(out, src...)
		}
	case 13: // newline conversions
		if r.Intn(2) == 0 {
			out = append(out, bytes.ReplaceAll(src, []byte("\n"), []byte("\r\n"))...)
		} else {
			out = append(out, bytes.ReplaceAll(src, []byte("\n"), []byte("\r"))...)
		}
	case 14: // swap two spans
		a, b := span()
		c, d := span()
		if b <= c {
			out = append(append(append(append(append(out, src[:a]...), src[c:d]...), src[b:c]...), src[a:b]...), src[d:]...)
		} else {
			out = append(out, src...)
			if n > 1 {
				i, j := r.Intn(n), r.Intn(n)
				out[i], out[j] = out[j], out[i]
			}
		}
	}
	return capLen(out)
}

func minInt(a, b int) int {
	if a < b {
		return a
	}
	return b
}

// ---------------------------------------------------------------- nesting

type nestPattern struct {
	name           string
	pre, open, mid string
	close, post    string
}

var nestPatterns = []nestPattern{
	{"paren", "", "(", "1", ")", ""},
	{"tuple", "", "[", "1", "]", ""},
	{"object", "", "{a=", "1", "}", ""},
	{"object-nl", "", "{\na=", "1", "\n}", ""},
	{"call", "", "f(", "1", ")", ""},
	{"not", "", "!", "t", "", ""},
	{"neg", "", "-", "1", "", ""},
	{"binop", "", "1+", "1", "", ""},
	{"binop-right", "1", "", "", "+1", ""},
	{"cond", "", "t?", "1", ":0", ""},
	{"cond-cond", "", "t?1:", "0", "", ""},
	{"for-tuple", "", "[for x in ", "one", ":x]", ""},
	{"for-object", "", "{for k,v in ", "m1", ":k=>v}", ""},
	{"index", "a", "", "", "[0]", ""},
	{"index-expr", "", "a[", "0", "]", ""},
	{"attr", "a", "", "", ".b", ""},
	{"splat", "a", "", "", ".*", ""},
	{"full-splat", "a", "", "", "[*]", ""},
	{"legacy-index", "a", "", "", ".0", ""},
	{"quote-interp", "", "\"${", "1", "}\"", ""},
	{"quote-interp-lit", "", "\"x${", "a", "}y\"", ""},
	{"quote-if", "\"", "%{if t}", "x", "%{endif}", "\""},
	{"quote-for", "\"", "%{for x in one}", "x", "%{endfor}", "\""},
	{"quote-if-else", "\"", "%{if t}a%{else}", "x", "%{endif}", "\""},
	{"heredoc-interp", "", "<<E\n${", "1", "}\nE\n", ""},
	{"heredoc-flush-interp", "", "<<-E\n  ${", "1", "}\n  E\n", ""},
	{"cfg-paren", "x = ", "(", "1", ")", "\n"},
	{"cfg-tuple", "x = ", "[", "1", "]", "\n"},
	{"cfg-object", "x = ", "{a=", "1", "}", "\n"},
	{"cfg-block", "", "b {\n", "a = 1\n", "}\n", ""},
	{"cfg-block-label", "", "b \"l\" {\n", "", "}\n", ""},
	{"cfg-block-oneline", "", "b { ", "a = 1", " }", "\n"},
	{"cfg-labels", "b", " \"l\"", " {", "", "}\n"},
	{"cfg-label-idents", "b", " l", " {", "", "}\n"},
	{"cfg-quote-interp", "x = ", "\"${", "1", "}\"", "\n"},
	{"cfg-heredoc-interp", "x = ", "<<E\n${", "1", "}\nE\n", ""},
	{"cfg-heredocs", "", "x = <<E\n", "", "E\n", ""},
	{"tpl-interp", "", "${\"", "x", "\"}", ""},
	{"tpl-if", "", "%{if t}", "x", "%{endif}", ""},
	{"tpl-for", "", "%{for x in one}", "x", "%{endfor}", ""},
	{"tpl-if-strip", "", "%{~if t~}\n", "x", "\n%{~endif~}", ""},
	{"tpl-else-chain", "%{if t}", "%{else}", "", "", "%{endif}"},
	{"json-array", "", "[", "1", "]", ""},
	{"json-object", "", "{\"a\":", "1", "}", ""},
	{"json-array-object", "", "[{\"b\":", "\"${a}\"", "}]", ""},
	{"json-string-interp", "{\"a\":\"", "${[", "1", "]}", "\"}"},
	{"comment-open", "", "/*", "", "", ""},
	{"comment-line", "", "#\n", "", "", ""},
	{"quotes", "", "\"", "", "", ""},
	{"interp-open", "", "${", "", "", ""},
	{"control-open", "", "%{", "", "", ""},
	{"heredoc-open", "", "<<A\n", "", "", ""},
	{"close-only-brace", "", "", "", "}", ""},
	{"close-only-seq", "", "", "", "~}", ""},
	{"newlines", "a=1", "\n", "", "", ""},
	{"crlf", "a=1", "\r\n", "", "", ""},
	{"cr", "a=1", "\r", "", "", ""},
	{"commas", "[", ",", "", "", "]"},
	{"dots", "a", ".", "", "", ""},
	{"stars", "a", "*", "", "", ""},
	{"idents", "", "a ", "", "", ""},
	{"semis", "a=1", ";", "", "", ""},
	{"badutf8", "a=\"", "\xff", "", "", "\"\n"},
}

// nestVariants: balanced, unterminated, and closed-too-often forms of one pattern.
func nestInput(p nestPattern, depth, variant int) []byte {
	var sb strings.Builder
	sb.WriteString(p.pre)
	unit := len(p.open) + len(p.close)
	if unit == 0 {
		unit = 1
	}
	// keep the whole input inside the size bound
	room := maxInput - len(p.pre) - len(p.mid) - len(p.post) - 8
	if depth*unit > room {
		depth = room / unit
	}
	sb.WriteString(strings.Repeat(p.open, depth))
	switch variant {
	case 0: // balanced
		sb.WriteString(p.mid)
		sb.WriteString(strings.Repeat(p.close, depth))
		sb.WriteString(p.post)
	case 1: // unterminated: everything opened, nothing closed
	case 2: // opened, operand, nothing closed
		sb.WriteString(p.mid)
	case 3: // one close too many
		sb.WriteString(p.mid)
		sb.WriteString(strings.Repeat(p.close, depth+1))
		sb.WriteString(p.post)
	case 4: // half closed
		sb.WriteString(p.mid)
		sb.WriteString(strings.Repeat(p.close, depth/2))
		sb.WriteString(p.post)
	}
	return capLen([]byte(sb.String()))
}

const nestVariants = 5
