// Package c17 holds the workload and monitor for property C17 (see /verif/DESIGN.md §3).
package c17
