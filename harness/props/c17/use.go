package c17

import (
	"bytes"
	stdjson "encoding/json"
	"fmt"
	"regexp"
	"sort"
	"unicode/utf8"

	"Havoc/pkg/profile"
	hcl "Havoc/pkg/profile/yaotl"
	"Havoc/pkg/profile/yaotl/ext/tryfunc"
	"Havoc/pkg/profile/yaotl/gohcl"
	"Havoc/pkg/profile/yaotl/hcldec"
	"Havoc/pkg/profile/yaotl/hclsyntax"

	"github.com/zclconf/go-cty/cty"
	"github.com/zclconf/go-cty/cty/function"
	"github.com/zclconf/go-cty/cty/function/stdlib"

	"verifh/lib"
)

// The evaluation context: a few variables of every kind and the usual functions.
// Evaluation only ever derives child contexts from it, so one instance serves all uses.
var theCtx = buildEvalCtx()

func evalCtx() *hcl.EvalContext { return theCtx }

func buildEvalCtx() *hcl.EvalContext {
	obj := cty.ObjectVal(map[string]cty.Value{
		"n": cty.NumberIntVal(7),
		"s": cty.StringVal("str"),
		"l": cty.ListVal([]cty.Value{cty.StringVal("x"), cty.StringVal("y")}),
		"o": cty.ObjectVal(map[string]cty.Value{"k": cty.True, "z": cty.NullVal(cty.String)}),
	})
	return &hcl.EvalContext{
		Variables: map[string]cty.Value{
			"a":    cty.NumberIntVal(1),
			"b":    cty.StringVal("bee"),
			"c":    cty.NumberFloatVal(2.5),
			"t":    cty.True,
			"f":    cty.False,
			"l":    cty.ListVal([]cty.Value{cty.NumberIntVal(1), cty.NumberIntVal(2), cty.NumberIntVal(3)}),
			"e":    cty.ListValEmpty(cty.String),
			"one":  cty.ListVal([]cty.Value{cty.NumberIntVal(1)}),
			"m1":   cty.MapVal(map[string]cty.Value{"k": cty.StringVal("v")}),
			"m":    cty.MapVal(map[string]cty.Value{"k1": cty.StringVal("v1"), "k2": cty.StringVal("v2")}),
			"o":    obj,
			"tup":  cty.TupleVal([]cty.Value{cty.NumberIntVal(1), cty.StringVal("two"), obj}),
			"set":  cty.SetVal([]cty.Value{cty.StringVal("p"), cty.StringVal("q")}),
			"nul":  cty.NullVal(cty.String),
			"dn":   cty.NullVal(cty.DynamicPseudoType),
			"u":    cty.UnknownVal(cty.String),
			"ul":   cty.UnknownVal(cty.List(cty.Number)),
			"d":    cty.DynamicVal,
			"sens": cty.StringVal("secret").Mark("sensitive"),
			"foo":  cty.StringVal("foo-value"),
			"bar":  obj,
			"var":  cty.ObjectVal(map[string]cty.Value{"x": cty.NumberIntVal(3), "list": cty.ListVal([]cty.Value{obj, obj})}),
		},
		Functions: map[string]function.Function{
			"upper":      stdlib.UpperFunc,
			"lower":      stdlib.LowerFunc,
			"length":     stdlib.LengthFunc,
			"concat":     stdlib.ConcatFunc,
			"join":       stdlib.JoinFunc,
			"split":      stdlib.SplitFunc,
			"min":        stdlib.MinFunc,
			"max":        stdlib.MaxFunc,
			"keys":       stdlib.KeysFunc,
			"values":     stdlib.ValuesFunc,
			"lookup":     stdlib.LookupFunc,
			"element":    stdlib.ElementFunc,
			"coalesce":   stdlib.CoalesceFunc,
			"merge":      stdlib.MergeFunc,
			"jsonencode": stdlib.JSONEncodeFunc,
			"jsondecode": stdlib.JSONDecodeFunc,
			"try":        tryfunc.TryFunc,
			"can":        tryfunc.CanFunc,
		},
	}
}

var hugeExponent = regexp.MustCompile(`[eE][+-]?[0-9]{5,}`)

// evalSafe says whether an error-free result of this input is handed to evaluation and
// decoding. Two input classes are parsed, lexed and walked like all others but not
// evaluated, because evaluating them costs time/memory exponential in the input length on
// this tree (side findings, see the builder's report; the statement demands of evaluation
// only that it does not panic, and the monitor cannot bound a call it cannot interrupt):
//   - number literals with an exponent of 5 or more digits (number-to-string conversion
//     prints every digit: "1e523456789" means half a gigabyte of zeros);
//   - more than 10 '*' bytes (a chain of n splats whose innermost step fails is evaluated
//     2^n times: SplatExpr.Value re-evaluates Each in resultTy at every level).
func evalSafe(src []byte) bool {
	if bytes.Count(src, []byte("*")) > 10 {
		return false
	}
	return !hugeExponent.Match(src)
}

func (k *checker) guard(phase string, f func()) bool {
	if pv, st := lib.Guard(f); pv != nil {
		k.panicFinding(phase, pv, st)
		return false
	}
	return true
}

// useExpr evaluates an expression that parsed without error diagnostics.
func (k *checker) useExpr(e hcl.Expression, flavour string) {
	k.st.evaluated++
	if flavour == "JSON" && k.jsonApprox {
		k.noDiagRanges = true
		defer func() { k.noDiagRanges = false }()
	}
	k.guard("Value(ctx) of an error-free "+flavour+" expression", func() {
		_, d := e.Value(evalCtx())
		k.checkDiags(d, "eval")
	})
	k.guard("Value(nil) of an error-free "+flavour+" expression", func() {
		_, d := e.Value(nil)
		k.checkDiags(d, "eval")
	})
	// positions inside the template / traversal of a JSON string are computed over the decoded
	// text (json/structure.go: "this won't produce exactly the right result"); like the
	// diagnostics of such a template they are judged only when raw and decoded text coincide
	approx := flavour == "JSON" && k.jsonApprox
	k.guard("Variables() of an error-free "+flavour+" expression", func() {
		for _, tr := range e.Variables() {
			for _, st := range tr {
				if st != nil && !approx {
					k.checkRange(st.SourceRange(), "Variables()", "step.SrcRange")
				}
			}
		}
	})
	k.guard("static analysis (ExprList/ExprMap/ExprCall/AbsTraversalForExpr) of an error-free "+flavour+" expression", func() {
		if l, d := hcl.ExprList(e); !d.HasErrors() {
			for _, x := range l {
				if x != nil {
					k.checkRange(x.Range(), "ExprList()", "item.Range()")
				}
			}
		} else {
			k.checkDiags(d, "static")
		}
		if m, d := hcl.ExprMap(e); !d.HasErrors() {
			for _, kv := range m {
				if kv.Key != nil {
					k.checkRange(kv.Key.Range(), "ExprMap()", "key.Range()")
				}
				if kv.Value != nil {
					k.checkRange(kv.Value.Range(), "ExprMap()", "value.Range()")
				}
			}
		} else {
			k.checkDiags(d, "static")
		}
		if call, d := hcl.ExprCall(e); !d.HasErrors() && call != nil {
			if !approx {
				k.checkRange(call.NameRange, "ExprCall()", "NameRange")
				k.checkRange(call.ArgsRange, "ExprCall()", "ArgsRange")
			}
		} else {
			k.checkDiags(d, "static")
		}
		tr, d := hcl.AbsTraversalForExpr(e)
		k.checkDiags(d, "static")
		for _, st := range tr {
			if st != nil && !approx {
				k.checkRange(st.SourceRange(), "AbsTraversalForExpr()", "step.SrcRange")
			}
		}
		_ = hcl.ExprAsKeyword(e)
	})
	k.guard("gohcl.DecodeExpression of an error-free "+flavour+" expression", func() {
		var v cty.Value
		k.checkDiags(gohcl.DecodeExpression(e, evalCtx(), &v), "decode")
		var s string
		k.checkDiags(gohcl.DecodeExpression(e, evalCtx(), &s), "decode")
	})
}

func (k *checker) useTraversal(tr hcl.Traversal) {
	if len(tr) == 0 {
		return
	}
	k.st.evaluated++
	k.guard("TraverseAbs of an error-free traversal", func() {
		_, d := tr.TraverseAbs(evalCtx())
		k.checkDiags(d, "eval")
		_ = tr.RootName()
		_ = tr.IsRelative()
		sp := tr.SimpleSplit()
		_, d = sp.Traverse(evalCtx())
		k.checkDiags(d, "eval")
	})
}

// ----- decode targets

type tgtService struct {
	Kind string   `yaotl:"kind,label"`
	Name string   `yaotl:"name,label"`
	Rest hcl.Body `yaotl:",remain"`
}

type tgtStruct struct {
	Name    *string           `yaotl:"name"`
	A       cty.Value         `yaotl:"a,optional"`
	Count   *int              `yaotl:"count,optional"`
	Tags    map[string]string `yaotl:"tags,optional"`
	List    []string          `yaotl:"list,optional"`
	Expr    hcl.Expression    `yaotl:"expr,optional"`
	Service []tgtService      `yaotl:"service,block"`
	Block   *struct {
		Attrs hcl.Attributes `yaotl:",remain"`
	} `yaotl:"block,block"`
	Rest hcl.Body `yaotl:",remain"`
}

type tgtStrict struct {
	A string `yaotl:"a"`
}

var fixedSpec = hcldec.ObjectSpec{
	"name":  &hcldec.AttrSpec{Name: "name", Type: cty.String},
	"a":     &hcldec.AttrSpec{Name: "a", Type: cty.DynamicPseudoType},
	"count": &hcldec.DefaultSpec{Primary: &hcldec.AttrSpec{Name: "count", Type: cty.Number}, Default: &hcldec.LiteralSpec{Value: cty.NumberIntVal(1)}},
	"list":  &hcldec.AttrSpec{Name: "list", Type: cty.List(cty.String)},
	"service": &hcldec.BlockMapSpec{TypeName: "service", LabelNames: []string{"kind", "name"},
		Nested: &hcldec.AttrSpec{Name: "port", Type: cty.Number}},
	"block": &hcldec.BlockAttrsSpec{TypeName: "block", ElementType: cty.String},
	"blocks": &hcldec.BlockListSpec{TypeName: "b", Nested: hcldec.ObjectSpec{
		"x": &hcldec.AttrSpec{Name: "x", Type: cty.String},
		"l": &hcldec.BlockLabelSpec{Index: 0, Name: "l"},
	}},
}

// derivedSpec builds an hcldec spec that accepts exactly the shape of the given native
// body (attributes of any type; blocks as tuples of objects).
func derivedSpec(b *hclsyntax.Body, depth int) hcldec.Spec {
	spec := hcldec.ObjectSpec{}
	for name := range b.Attributes {
		spec[name] = &hcldec.AttrSpec{Name: name, Type: cty.DynamicPseudoType}
	}
	if depth > 40 {
		return spec
	}
	seen := map[string]bool{}
	for _, blk := range b.Blocks {
		if blk == nil || seen[blk.Type] || blk.Body == nil {
			continue
		}
		seen[blk.Type] = true
		nested := hcldec.ObjectSpec{"body": derivedSpec(blk.Body, depth+1)}
		for i := range blk.Labels {
			nested[fmt.Sprintf("label%d", i)] = &hcldec.BlockLabelSpec{Index: i, Name: fmt.Sprintf("label%d", i)}
		}
		key := blk.Type
		if _, clash := spec[key]; clash {
			key = "block:" + key
		}
		spec[key] = &hcldec.BlockTupleSpec{TypeName: blk.Type, Nested: nested}
	}
	return spec
}

// derivedSchema is the hcl.BodySchema of exactly the native body's own items.
func derivedSchema(b *hclsyntax.Body) *hcl.BodySchema {
	s := &hcl.BodySchema{}
	var names []string
	for n := range b.Attributes {
		names = append(names, n)
	}
	sort.Strings(names)
	for _, n := range names {
		s.Attributes = append(s.Attributes, hcl.AttributeSchema{Name: n})
	}
	seen := map[string]bool{}
	for _, blk := range b.Blocks {
		if blk == nil || seen[blk.Type] {
			continue
		}
		seen[blk.Type] = true
		var ln []string
		for i := range blk.Labels {
			ln = append(ln, fmt.Sprintf("l%d", i))
		}
		s.Blocks = append(s.Blocks, hcl.BlockHeaderSchema{Type: blk.Type, LabelNames: ln})
	}
	return s
}

var fixedSchema = &hcl.BodySchema{
	Attributes: []hcl.AttributeSchema{{Name: "name", Required: true}, {Name: "a"}, {Name: "count"}},
	Blocks:     []hcl.BlockHeaderSchema{{Type: "service", LabelNames: []string{"kind", "name"}}, {Type: "block"}, {Type: "b", LabelNames: []string{"l"}}},
}

func (k *checker) checkContent(c *hcl.BodyContent, depth int) {
	if c == nil {
		return
	}
	k.checkRange(c.MissingItemRange, "BodyContent", "MissingItemRange")
	for _, a := range c.Attributes {
		if a == nil {
			continue
		}
		k.checkRange(a.Range, "hcl.Attribute", "Range")
		k.checkRange(a.NameRange, "hcl.Attribute", "NameRange")
	}
	for _, b := range c.Blocks {
		if b == nil {
			continue
		}
		k.checkRange(b.DefRange, "hcl.Block", "DefRange")
		k.checkRange(b.TypeRange, "hcl.Block", "TypeRange")
		for _, r := range b.LabelRanges {
			k.checkRange(r, "hcl.Block", "LabelRanges[]")
		}
	}
}

// useConfig decodes a configuration file that parsed without error diagnostics.
func (k *checker) useConfig(f *hcl.File, body *hclsyntax.Body) {
	k.st.decoded++
	k.guard("JustAttributes + Value of an error-free body", func() {
		attrs, d := body.JustAttributes()
		k.checkDiags(d, "decode")
		for _, a := range attrs {
			if a == nil || a.Expr == nil {
				continue
			}
			k.st.evaluated++
			_, d := a.Expr.Value(evalCtx())
			k.checkDiags(d, "eval")
		}
	})
	k.guard("evaluation of every attribute of an error-free file", func() { k.evalBody(body, 0) })
	k.guard("Content/PartialContent(schema) of an error-free body", func() {
		c, d := body.Content(derivedSchema(body))
		k.checkDiags(d, "decode")
		k.checkContent(c, 0)
		c, d = body.Content(fixedSchema)
		k.checkDiags(d, "decode")
		k.checkContent(c, 0)
		c, rest, d := body.PartialContent(fixedSchema)
		k.checkDiags(d, "decode")
		k.checkContent(c, 0)
		if rest != nil {
			k.checkRange(rest.MissingItemRange(), "hcl.Body", "MissingItemRange()")
			_, d = rest.JustAttributes()
			k.checkDiags(d, "decode")
		}
	})
	k.guard("hcldec.Decode of an error-free body", func() {
		_, d := hcldec.Decode(body, derivedSpec(body, 0), evalCtx())
		k.checkDiags(d, "decode")
		_, d = hcldec.Decode(body, fixedSpec, evalCtx())
		k.checkDiags(d, "decode")
		_, _, d = hcldec.PartialDecode(body, fixedSpec, nil)
		k.checkDiags(d, "decode")
		_ = hcldec.Variables(body, fixedSpec)
		k.checkRange(hcldec.SourceRange(body, fixedSpec), "hcldec", "SourceRange()")
	})
	k.guard("gohcl.DecodeBody of an error-free body", func() {
		var t tgtStruct
		k.checkDiags(gohcl.DecodeBody(body, evalCtx(), &t), "decode")
		var s tgtStrict
		k.checkDiags(gohcl.DecodeBody(body, nil, &s), "decode")
		var m map[string]cty.Value
		k.checkDiags(gohcl.DecodeBody(body, evalCtx(), &m), "decode")
		var ms map[string]string
		k.checkDiags(gohcl.DecodeBody(body, evalCtx(), &ms), "decode")
		var me map[string]hcl.Expression
		k.checkDiags(gohcl.DecodeBody(body, nil, &me), "decode")
		var cfg profile.HavocConfig
		k.checkDiags(gohcl.DecodeBody(body, nil, &cfg), "decode")
	})
}

func (k *checker) evalBody(b *hclsyntax.Body, depth int) {
	if b == nil {
		return
	}
	for _, a := range b.Attributes {
		if a != nil && a.Expr != nil {
			k.st.evaluated++
			_, d := a.Expr.Value(evalCtx())
			k.checkDiags(d, "eval")
			_ = a.Expr.Variables()
		}
	}
	for _, blk := range b.Blocks {
		if blk != nil {
			k.evalBody(blk.Body, depth+1)
		}
	}
}

// ---------------------------------------------------------------- JSON

// walkJSON reaches everything json.Parse returned through the only interface it has
// (hcl.Body): the properties of each object as attributes, then — through a schema that
// declares every property name as a block type — as nested bodies, recursively.
func (k *checker) walkJSON(f *hcl.File) {
	// Templates inside JSON strings are parsed at evaluation time on the *decoded* string with
	// a start position computed from the raw one; json/structure.go says "this won't produce
	// exactly the right result, since the parser can't see any escapes we removed". Their
	// diagnostics' positions are judged only when raw and decoded text coincide.
	k.jsonApprox = !utf8.Valid(k.src) || bytes.IndexByte(k.src, '\\') >= 0
	suffix := ""
	if !k.st.errFree {
		suffix = " (after error diagnostics)"
	}
	k.guard("walk of the returned JSON body"+suffix, func() { k.walkJSONBody(f.Body, nil, 0) })
}

// plainName: printable ASCII without quote and backslash.
func plainName(n string) bool {
	if n == "" {
		return false
	}
	for i := 0; i < len(n); i++ {
		if n[i] < 0x20 || n[i] > 0x7e || n[i] == '"' || n[i] == '\\' {
			return false
		}
	}
	return true
}

// spellsName reports whether lit is a quoted JSON string literal for name. A literal the
// lenient scanner accepted but encoding/json refuses is not judged beyond its quotes.
func spellsName(lit, name string) bool {
	if lit == `"`+name+`"` {
		return true
	}
	if len(lit) < 2 || lit[0] != '"' || lit[len(lit)-1] != '"' {
		return false
	}
	var dec string
	if err := stdjson.Unmarshal([]byte(lit), &dec); err != nil {
		return true
	}
	return dec == name
}

func (k *checker) walkJSONBody(b hcl.Body, parent *hcl.Range, depth int) {
	if b == nil {
		return
	}
	k.st.nodes++
	if depth+1 > k.st.maxDepth {
		k.st.maxDepth = depth + 1
	}
	k.checkRange(b.MissingItemRange(), "json.body", "MissingItemRange()")
	attrs, d := b.JustAttributes()
	k.checkDiags(d, "json-attrs")
	var names []string
	for n, a := range attrs {
		if a == nil {
			continue
		}
		names = append(names, n)
		k.st.jsonAttrs++
		k.st.nodes++
		okA := k.checkRange(a.Range, "json.Attribute", "Range")
		if k.checkRange(a.NameRange, "json.Attribute", "NameRange") && plainName(n) {
			// a position is sane when it is the position of the thing: the bytes under the name
			// range are a string literal that spells the name (judged for plain ASCII names;
			// `\/` and `\u0041` are other spellings of such a name)
			k.st.jsonNames++
			if got := string(k.src[a.NameRange.Start.Byte:a.NameRange.End.Byte]); !spellsName(got, n) {
				k.report("range:name-range-not-on-the-name@json.Parse",
					fmt.Sprintf("json.Parse: the name range %s of property %q covers %q", rstr(a.NameRange), n, clip([]byte(got))),
					map[string]any{"range": rstr(a.NameRange), "covers": got})
			}
		}
		if a.Expr != nil {
			er := a.Expr.Range()
			okE := k.checkRange(er, "json.expression", "Range()")
			k.checkRange(a.Expr.StartRange(), "json.expression", "StartRange()")
			if okA && okE && !(a.Range.Start.Byte <= er.Start.Byte && er.End.Byte <= a.Range.End.Byte) {
				k.report("range:child-outside-parent:json.Attribute>json.expression@json.Parse",
					fmt.Sprintf("json.Parse: value %s of property %q is not inside the property's range %s", rstr(er), n, rstr(a.Range)),
					map[string]any{"child": rstr(er), "parent": rstr(a.Range)})
			}
			if k.st.errFree && depth < 3 && k.evalOK {
				k.useExpr(a.Expr, "JSON")
			}
		}
	}
	if len(names) == 0 || depth > 20000 {
		return
	}
	sort.Strings(names)
	schema := &hcl.BodySchema{}
	for _, n := range names {
		schema.Blocks = append(schema.Blocks, hcl.BlockHeaderSchema{Type: n})
	}
	c, _, d := b.PartialContent(schema)
	k.checkDiags(d, "json-blocks")
	if c == nil {
		return
	}
	k.checkRange(c.MissingItemRange, "json.BodyContent", "MissingItemRange")
	for _, blk := range c.Blocks {
		if blk == nil {
			continue
		}
		k.st.jsonBlocks++
		k.checkRange(blk.DefRange, "json.Block", "DefRange")
		k.checkRange(blk.TypeRange, "json.Block", "TypeRange")
		for _, r := range blk.LabelRanges {
			k.checkRange(r, "json.Block", "LabelRanges[]")
		}
		k.walkJSONBody(blk.Body, &blk.DefRange, depth+1)
	}
	if k.st.errFree && depth == 0 && k.evalOK {
		k.st.decoded++
		if k.jsonApprox {
			k.noDiagRanges = true
			defer func() { k.noDiagRanges = false }()
		}
		// labelled form and the fixed targets
		c, d := b.Content(fixedSchema)
		k.checkDiags(d, "decode")
		k.checkContent(c, 0)
		_, d = hcldec.Decode(b, fixedSpec, evalCtx())
		k.checkDiags(d, "decode")
		var t tgtStruct
		k.checkDiags(gohcl.DecodeBody(b, evalCtx(), &t), "decode")
		var m map[string]cty.Value
		k.checkDiags(gohcl.DecodeBody(b, evalCtx(), &m), "decode")
		var cfg profile.HavocConfig
		k.checkDiags(gohcl.DecodeBody(b, nil, &cfg), "decode")
	}
}
