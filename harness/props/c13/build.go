package c13

// Monitor B: the real Builder.Build() end to end with a stub compiler and a stub assembler
// that record their argv, under a PATH that holds nothing but `sh` and a recording `touch`,
// and (when available) under `strace -f -e trace=execve`.
//
// The builds run in a child process (the worker re-executes itself with VERIF_C13_CHILD
// set; init() diverts into childMain) so that strace sees exactly the build steps.

import (
	"bytes"
	"encoding/json"
	"fmt"
	"io"
	"os"
	"os/exec"
	"path/filepath"
	"regexp"
	"sort"
	"strconv"
	"strings"
	"syscall"

	"Havoc/pkg/common/builder"
	"Havoc/pkg/logger"

	"verifh/lib"
)

const childEnv = "VERIF_C13_CHILD"

type buildJob struct {
	ID       int    `json:"id"`
	Case     *Case  `json:"case"`
	Name     string `json:"name"`     // service-name template ("@ROOT@" = sandbox directory); "" with NoName=false means empty name
	NoName   bool   `json:"no_name"`  // "Service Name" key absent
	Baseline bool   `json:"baseline"` // the twin with a plain name
	Twin     int    `json:"twin"`     // id of the baseline twin
}

type invocation struct {
	Tool string   `json:"tool"`
	Cwd  string   `json:"cwd"`
	Argv []string `json:"argv"`
}

type buildResult struct {
	ID       int          `json:"id"`
	Ok       bool         `json:"ok"`
	Msgs     []string     `json:"msgs"`
	Panic    string       `json:"panic,omitempty"`
	Inv      []invocation `json:"inv"`
	Wrap     []invocation `json:"wrap"`
	Canaries []string     `json:"canaries"`
	Infra    string       `json:"infra,omitempty"`
}

type sandbox struct {
	Root, TS, Bin, Stubs string
	CC64, CC86, Nasm, Sh string
	CCLog, WrapLog       string
}

func sbPaths(root string) *sandbox {
	s := &sandbox{Root: root, TS: filepath.Join(root, "ts"), Bin: filepath.Join(root, "bin"), Stubs: filepath.Join(root, "stubs")}
	s.CC64 = filepath.Join(s.Stubs, "cc64")
	s.CC86 = filepath.Join(s.Stubs, "cc86")
	s.Nasm = filepath.Join(s.Stubs, "nasm")
	s.Sh = filepath.Join(s.Bin, "sh")
	s.CCLog = filepath.Join(root, "stub.log")
	s.WrapLog = filepath.Join(root, "wrap.log")
	return s
}

func stubScript(tool, log string, createOut, touchArgs bool) string {
	var sb strings.Builder
	sb.WriteString("#!/bin/sh\n")
	fmt.Fprintf(&sb, "{ printf '%%s\\0%%s\\0%%s\\0' '%s' \"$PWD\" \"$#\"; [ $# -gt 0 ] && printf '%%s\\0' \"$@\"; } >> '%s'\n", tool, log)
	if createOut {
		sb.WriteString("prev=\nfor a in \"$@\"; do\n  if [ \"$prev\" = \"-o\" ]; then printf 'MZstub' > \"$a\"; fi\n  prev=$a\ndone\n")
	}
	if touchArgs {
		sb.WriteString("for a in \"$@\"; do : > \"$a\"; done\n")
	}
	sb.WriteString("exit 0\n")
	return sb.String()
}

// makeSandbox lays out a teamserver working directory holding the *names* of the Demon
// sources (Build() lists src/core, src/crypt, src/inject and src/asm), the shellcode
// templates, the stub tools and the restricted PATH directory. Nothing is written to /repo.
func makeSandbox() (*sandbox, error) {
	root, err := os.MkdirTemp("", "c13-")
	if err != nil {
		return nil, err
	}
	s := sbPaths(root)
	src := ""
	for _, r := range []string{os.Getenv("VERIF_REPO"), "/repo"} {
		if r == "" {
			continue
		}
		p := filepath.Join(r, "payloads", "Demon", "src")
		if st, err := os.Stat(p); err == nil && st.IsDir() {
			src = p
			break
		}
	}
	if src == "" {
		os.RemoveAll(root)
		return nil, fmt.Errorf("payloads/Demon/src not found under $VERIF_REPO or /repo")
	}
	demon := filepath.Join(s.TS, "payloads", "Demon")
	err = filepath.Walk(src, func(p string, info os.FileInfo, err error) error {
		if err != nil {
			return err
		}
		rel, _ := filepath.Rel(src, p)
		dst := filepath.Join(demon, "src", rel)
		if info.IsDir() {
			return os.MkdirAll(dst, 0o755)
		}
		return os.WriteFile(dst, []byte("/* name only */\n"), 0o644)
	})
	if err != nil {
		os.RemoveAll(root)
		return nil, err
	}
	os.MkdirAll(filepath.Join(demon, "include"), 0o755)
	os.WriteFile(filepath.Join(s.TS, "payloads", "Shellcode.x64.bin"), []byte("SC64"), 0o644)
	os.WriteFile(filepath.Join(s.TS, "payloads", "Shellcode.x86.bin"), []byte("SC86"), 0o644)
	os.MkdirAll(s.Bin, 0o755)
	os.MkdirAll(s.Stubs, 0o755)
	sh, err := exec.LookPath("sh")
	if err != nil {
		os.RemoveAll(root)
		return nil, err
	}
	if sh, err = filepath.Abs(sh); err != nil {
		os.RemoveAll(root)
		return nil, err
	}
	if err := os.Symlink(sh, s.Sh); err != nil {
		os.RemoveAll(root)
		return nil, err
	}
	os.WriteFile(s.CC64, []byte(stubScript("cc64", s.CCLog, true, false)), 0o755)
	os.WriteFile(s.CC86, []byte(stubScript("cc86", s.CCLog, true, false)), 0o755)
	os.WriteFile(s.Nasm, []byte(stubScript("nasm", s.CCLog, true, false)), 0o755)
	os.WriteFile(filepath.Join(s.Bin, "touch"), []byte(stubScript("touch", s.WrapLog, false, true)), 0o755)
	return s, nil
}

func readInvLog(p string) []invocation {
	b, err := os.ReadFile(p)
	if err != nil {
		return nil
	}
	os.Truncate(p, 0)
	f := bytes.Split(b, []byte{0})
	var out []invocation
	for i := 0; i+2 < len(f); {
		n, err := strconv.Atoi(string(f[i+2]))
		if err != nil || i+3+n > len(f) {
			out = append(out, invocation{Tool: "?unparsable-log", Argv: []string{string(b)}})
			break
		}
		inv := invocation{Tool: string(f[i]), Cwd: string(f[i+1]), Argv: []string{}}
		for _, a := range f[i+3 : i+3+n] {
			inv.Argv = append(inv.Argv, string(a))
		}
		out = append(out, inv)
		i += 3 + n
	}
	return out
}

func listFiles(root string) map[string]bool {
	m := map[string]bool{}
	filepath.Walk(root, func(p string, info os.FileInfo, err error) error {
		if err == nil {
			m[p] = true
		}
		return nil
	})
	return m
}

func marker(s string) {
	// a failing execve that strace records: delimits the builds in the exec log
	syscall.Exec("/c13-marker/"+s, []string{"marker"}, nil)
}

func (j *buildJob) serviceName(root string) *string {
	if j.NoName {
		return nil
	}
	n := strings.ReplaceAll(j.Name, "@ROOT@", root)
	return &n
}

// childMain: executed in the re-executed worker. Runs every job of <root>/jobs.json through
// the real Builder.Build() and writes <root>/results.json.
func childMain(root string) {
	logger.SetStdOut(io.Discard)
	s := sbPaths(root)
	var jobs []buildJob
	b, err := os.ReadFile(filepath.Join(root, "jobs.json"))
	if err != nil || json.Unmarshal(b, &jobs) != nil {
		fmt.Fprintln(os.Stderr, "c13 child: cannot read jobs")
		os.Exit(3)
	}
	if err := os.Chdir(s.TS); err != nil {
		fmt.Fprintln(os.Stderr, "c13 child:", err)
		os.Exit(3)
	}
	os.Setenv("PATH", s.Bin)
	os.Setenv("PWD", s.TS)
	var results []buildResult
	for i := range jobs {
		j := &jobs[i]
		res := buildResult{ID: j.ID}
		cs := j.Case.clone()
		cs.Opt.ServiceName = j.serviceName(root)
		before := listFiles(root)
		os.Truncate(s.CCLog, 0)
		os.Truncate(s.WrapLog, 0)
		marker(fmt.Sprintf("%d/begin", j.ID))
		var bld *builder.Builder
		pv, stack := lib.Guard(func() {
			var err error
			bld, err = newBuilder(cs, builder.BuilderConfig{Compiler64: s.CC64, Compiler86: s.CC86, Nasm: s.Nasm}, listenerOf(cs), &res.Msgs)
			if err != nil {
				res.Infra = "SetConfig: " + err.Error()
				return
			}
			ext := map[int]string{1: ".exe", 2: ".exe", 3: ".dll", 4: ".dll", 5: ".bin"}[cs.Format]
			if cs.Arch == 1 {
				bld.SetExtension(".x64" + ext)
			} else {
				bld.SetExtension(".x86" + ext)
			}
			res.Ok = bld.Build()
		})
		marker(fmt.Sprintf("%d/end", j.ID))
		if pv != nil {
			res.Panic = lib.PanicSig(pv, stack)
		}
		if bld != nil && strings.HasPrefix(bld.CompileDir, "/tmp/") && len(bld.CompileDir) > len("/tmp/")+5 {
			if _, err := os.Stat(bld.CompileDir); err != nil && !res.Ok && len(res.Msgs) == 0 {
				res.Infra = "compile directory was not created"
			}
			os.RemoveAll(bld.CompileDir)
		}
		res.Inv = readInvLog(s.CCLog)
		res.Wrap = readInvLog(s.WrapLog)
		after := listFiles(root)
		for p := range after {
			if !before[p] && p != s.CCLog && p != s.WrapLog {
				res.Canaries = append(res.Canaries, p)
				os.RemoveAll(p)
			}
		}
		sort.Strings(res.Canaries)
		results = append(results, res)
	}
	out, _ := json.Marshal(results)
	if err := os.WriteFile(filepath.Join(root, "results.json"), out, 0o644); err != nil {
		os.Exit(3)
	}
}

// ---------------------------------------------------------------------------------------
// parent side

type execRec struct {
	Path string `json:"path"`
	Line string `json:"line"`
}

var reExecve = regexp.MustCompile(`^(\d+)\s+execve\("((?:[^"\\]|\\.)*)"`)

// parseStrace splits the exec log into the execve calls seen between the begin/end
// markers of each job. ok is false if the log does not have the expected markers.
func parseStrace(path string, ids []int) (map[int][]execRec, bool) {
	b, err := os.ReadFile(path)
	if err != nil {
		return nil, false
	}
	out := map[int][]execRec{}
	cur, seenBegin, seenEnd := -1, map[int]bool{}, map[int]bool{}
	for _, ln := range strings.Split(string(b), "\n") {
		m := reExecve.FindStringSubmatch(ln)
		if m == nil {
			continue
		}
		p := m[2]
		if strings.HasPrefix(p, "/c13-marker/") {
			f := strings.Split(strings.TrimPrefix(p, "/c13-marker/"), "/")
			id, err := strconv.Atoi(f[0])
			if err != nil || len(f) != 2 {
				continue
			}
			if f[1] == "begin" {
				cur = id
				seenBegin[id] = true
				out[id] = []execRec{}
			} else {
				cur = -1
				seenEnd[id] = true
			}
			continue
		}
		if cur >= 0 {
			out[cur] = append(out[cur], execRec{Path: p, Line: tailStr(ln, 600)})
		}
	}
	for _, id := range ids {
		if !seenBegin[id] || !seenEnd[id] {
			return out, false
		}
	}
	return out, true
}

type batchOut struct {
	Results map[int]*buildResult
	Execs   map[int][]execRec
	Strace  bool
	SB      *sandbox
}

// runBatch executes the jobs in a child process, under strace when it works.
func runBatch(jobs []buildJob) (*batchOut, error) {
	s, err := makeSandbox()
	if err != nil {
		return nil, err
	}
	defer os.RemoveAll(s.Root)
	jb, _ := json.Marshal(jobs)
	if err := os.WriteFile(filepath.Join(s.Root, "jobs.json"), jb, 0o644); err != nil {
		return nil, err
	}
	self, err := os.Executable()
	if err != nil {
		return nil, err
	}
	ids := make([]int, len(jobs))
	for i := range jobs {
		ids[i] = jobs[i].ID
	}
	env := append(os.Environ(), childEnv+"="+s.Root)
	out := &batchOut{Results: map[int]*buildResult{}, SB: s}
	resPath := filepath.Join(s.Root, "results.json")
	load := func() bool {
		b, err := os.ReadFile(resPath)
		if err != nil {
			return false
		}
		var rs []buildResult
		if json.Unmarshal(b, &rs) != nil || len(rs) != len(jobs) {
			return false
		}
		for i := range rs {
			out.Results[rs[i].ID] = &rs[i]
		}
		return true
	}
	if st, err := exec.LookPath("strace"); err == nil && os.Getenv("VERIF_C13_NOSTRACE") == "" {
		slog := filepath.Join(s.Root, "strace.log")
		cmd := exec.Command(st, "-f", "-s", "8192", "-e", "trace=execve", "-o", slog, self)
		cmd.Env = env
		cmd.Stdout, cmd.Stderr = io.Discard, io.Discard
		if cmd.Run() == nil && load() {
			if ex, ok := parseStrace(slog, ids); ok {
				out.Execs, out.Strace = ex, true
				return out, nil
			}
			return out, nil // builds ran, exec log unusable
		}
		os.Remove(resPath)
		out.Results = map[int]*buildResult{}
	}
	cmd := exec.Command(self)
	cmd.Env = env
	var eb bytes.Buffer
	cmd.Stdout, cmd.Stderr = io.Discard, &eb
	if err := cmd.Run(); err != nil {
		return nil, fmt.Errorf("build child failed: %v: %s", err, tailStr(eb.String(), 300))
	}
	if !load() {
		return nil, fmt.Errorf("build child left no results")
	}
	return out, nil
}

// ---------------------------------------------------------------------------------------
// hostile operator strings

var hostileNames = []string{
	"HavocSvc",
	"My Service",
	`a"b`,
	`a'b`,
	"a`touch CANARY_BT`b",
	"a$(touch CANARY_SUB)b",
	"a; touch CANARY_SEMI",
	"a && touch CANARY_AND",
	"a | touch CANARY_PIPE",
	`a\b`,
	"a\nb",
	"a\ntouch CANARY_NL",
	"-DFOO",
	"x -DFOO=1",
	`a" -DINJECTED="1`,
	`a\"; touch CANARY_ESC; \"`,
	`'; touch CANARY_SQ; '`,
	"$(touch @ROOT@/CANARY_ABS)",
	"a > CANARY_REDIR",
	"$HOME",
	"*",
	`a\`,
	"",
	"a || touch CANARY_OR",
	"a & touch CANARY_BG",
	"${IFS}touch${IFS}CANARY_IFS",
	"a\t-DTAB",
	`"$(touch CANARY_DQ)"`,
}

var hostileFrags = []string{" ", `"`, `'`, "`", "$(", ")", ";", "&&", "|", `\`, "\n", "-D", "touch CANARY_R", "a", "Svc", "=", ">", "<", "#", "&", "$", "{", "}", "*", "~", "!", "%s", "\t", `\"`}

var hostileData = []string{
	`C:\Windows\System32\cmd.exe /c "echo $(touch CANARY_DATA1)"`,
	"x`touch CANARY_DATA2`; touch CANARY_DATA3 #",
	`\,0x41} -DINJECT={0x00`,
	"'; touch CANARY_DATA4; '",
}

var rePlain = regexp.MustCompile(`^[A-Za-z0-9_]+$`)

func genJob(id int, seed int64, thorough bool) buildJob {
	r := newRand(seed, int64(id))
	cs := validCase(r)
	j := buildJob{ID: 2*id + 1, Twin: 2 * id, Case: cs}
	if id < 4*len(hostileNames) || !thorough {
		j.Name = hostileNames[id%len(hostileNames)]
	} else {
		n := 1 + r.Intn(5)
		for i := 0; i < n; i++ {
			j.Name += pick(r, hostileFrags)
		}
	}
	if r.Intn(100) < 72 {
		cs.Format = 2
	} else {
		cs.Format = []int{1, 3, 4, 5}[r.Intn(4)]
		if r.Intn(8) == 0 {
			j.NoName = true
		}
	}
	if r.Intn(2) == 0 { // hostile strings in fields that travel inside the config bytes
		h := pick(r, hostileData)
		switch r.Intn(4) {
		case 0:
			cs.Opt.Spawn64 = h
		case 1:
			if cs.HTTP != nil {
				cs.HTTP.UserAgent = h
			} else {
				cs.SMB.PipeName = h
			}
		case 2:
			if cs.HTTP != nil {
				cs.HTTP.Headers = append(cs.HTTP.Headers, "X-H: "+h)
			} else {
				cs.Opt.Spawn32 = h
			}
		case 3:
			if cs.HTTP != nil {
				cs.HTTP.Uris = append(cs.HTTP.Uris, "/"+h)
			} else {
				cs.SMB.PipeName = h
			}
		}
	}
	cs.Opt.ServiceName = nil
	return j
}

func twinOf(j *buildJob) buildJob {
	t := *j
	t.ID, t.Twin, t.Baseline = j.Twin, j.Twin, true
	t.Name = "HavocSvc"
	return t
}

// ---------------------------------------------------------------------------------------
// oracle

var (
	reTmpDir = regexp.MustCompile(`/tmp/[A-Za-z0-9]{10}/`)
	reTmpObj = regexp.MustCompile(`^/tmp/#/[A-Za-z0-9]{10}\.o$`)
)

func normArg(a string) string {
	a = reTmpDir.ReplaceAllString(a, "/tmp/#/")
	if reTmpObj.MatchString(a) {
		return "/tmp/#/#.o"
	}
	if strings.HasPrefix(a, "-DCONFIG_BYTES=") {
		return "-DCONFIG_BYTES=#"
	}
	return a
}

// cDecode decodes a C string literal body (between the quotes).
func cDecode(s string) (string, bool) {
	var out []byte
	for i := 0; i < len(s); i++ {
		c := s[i]
		if c == '"' {
			return "", false // unescaped quote ends the literal early
		}
		if c != '\\' {
			out = append(out, c)
			continue
		}
		i++
		if i >= len(s) {
			return "", false
		}
		switch e := s[i]; e {
		case 'n':
			out = append(out, '\n')
		case 't':
			out = append(out, '\t')
		case 'r':
			out = append(out, '\r')
		case 'a':
			out = append(out, 7)
		case 'b':
			out = append(out, 8)
		case 'f':
			out = append(out, 12)
		case 'v':
			out = append(out, 11)
		case '\\', '"', '\'', '?':
			out = append(out, e)
		case 'x':
			j := i + 1
			v := 0
			for j < len(s) && strings.IndexByte("0123456789abcdefABCDEF", s[j]) >= 0 {
				d, _ := strconv.ParseInt(s[j:j+1], 16, 32)
				v = v*16 + int(d)
				j++
			}
			if j == i+1 || v > 255 {
				return "", false
			}
			out = append(out, byte(v))
			i = j - 1
		default:
			if e >= '0' && e <= '7' {
				j, v := i, 0
				for j < len(s) && j < i+3 && s[j] >= '0' && s[j] <= '7' {
					v = v*8 + int(s[j]-'0')
					j++
				}
				if v > 255 {
					return "", false
				}
				out = append(out, byte(v))
				i = j - 1
			} else {
				return "", false
			}
		}
	}
	return string(out), true
}

// serviceArgOK: does this argv element define SERVICE_NAME as exactly the given name?
func serviceArgOK(arg string, name string) bool {
	v := strings.TrimPrefix(arg, "-DSERVICE_NAME=")
	if len(v) < 2 || v[0] != '"' || v[len(v)-1] != '"' {
		return false
	}
	body := v[1 : len(v)-1]
	if name == "" {
		// empty name: the builder picks a random one
		return regexp.MustCompile(`^[A-Za-z0-9]{4,32}$`).MatchString(body)
	}
	if body == name && !strings.ContainsAny(name, "\"\\\n") {
		return true
	}
	d, ok := cDecode(body)
	return ok && d == name
}

func parseConfigDefine(arg string) ([]byte, bool) {
	v := strings.TrimPrefix(arg, "-DCONFIG_BYTES=")
	if len(v) < 2 || v[0] != '{' || v[len(v)-1] != '}' {
		return nil, false
	}
	v = v[1 : len(v)-1]
	if v == "" {
		return []byte{}, true
	}
	var out []byte
	for _, t := range strings.Split(v, ",") {
		t = strings.TrimSpace(t)
		if !strings.HasPrefix(t, "0x") {
			return nil, false
		}
		n, err := strconv.ParseUint(t[2:], 16, 8)
		if err != nil {
			return nil, false
		}
		out = append(out, byte(n))
	}
	return out, true
}

func normInv(inv []invocation, svcIdx map[[2]int]bool) []string {
	var out []string
	for i, v := range inv {
		var a []string
		for k, x := range v.Argv {
			if svcIdx[[2]int{i, k}] {
				a = append(a, "-DSERVICE_NAME=#")
			} else {
				a = append(a, normArg(x))
			}
		}
		b, _ := json.Marshal(a)
		out = append(out, v.Tool+" cwd="+filepath.Base(v.Cwd)+" "+string(b))
	}
	return out
}

type witnessB struct {
	Kind      string       `json:"kind"` // "B"
	Signature string       `json:"signature"`
	Job       buildJob     `json:"job"`
	Name      *string      `json:"service_name"`
	What      string       `json:"what"`
	Result    *buildResult `json:"observed"`
	Baseline  *buildResult `json:"baseline_observed,omitempty"`
	Execs     []execRec    `json:"execve_seen,omitempty"`
}

type bViol struct {
	sig, what string
}

func isCC(t string) bool { return t == "cc64" || t == "cc86" }

// judgeBuild applies the oracle of monitor B to one build and its plain-name twin.
func judgeBuild(j *buildJob, res, base *buildResult, execs []execRec, haveExecs bool, s *sandbox, cfgCheck func(cs *Case, b []byte, build int) *finding) (vs []bViol, notes []string) {
	name := j.serviceName(s.Root)
	add := func(sig, format string, a ...any) { vs = append(vs, bViol{sig, fmt.Sprintf(format, a...)}) }
	if res.Panic != "" {
		add(res.Panic, "Build() panicked")
		return
	}
	// (1) nothing but sh, the compiler and the assembler runs; no canary appears
	var ran []string
	for _, w := range res.Wrap {
		var av []string
		for _, a := range w.Argv {
			av = append(av, tailStr(a, 60))
		}
		ran = append(ran, "PATH wrapper ran: "+w.Tool+" "+strings.Join(av, " "))
	}
	for _, p := range res.Canaries {
		ran = append(ran, "file appeared: "+strings.Replace(p, s.Root, "<sandbox>", 1))
	}
	if haveExecs {
		allowed := map[string]bool{s.Sh: true, s.CC64: true, s.CC86: true, s.Nasm: true}
		for _, e := range execs {
			if !allowed[e.Path] {
				ran = append(ran, "execve: "+strings.Replace(e.Path, s.Root, "<sandbox>", 1))
			}
		}
	}
	if len(ran) > 0 {
		add("shell:build-string-executed", "build with service name %q started programs / created files the build does not need: %s", deref(name), strings.Join(ran, "; "))
	}
	for _, iv := range res.Inv {
		if !isCC(iv.Tool) && iv.Tool != "nasm" {
			add("harness:stub-log", "unparsable stub log")
			return
		}
	}
	// (2) the compiler's argv
	svcIdx := map[[2]int]bool{}
	ncc := 0
	for i, iv := range res.Inv {
		if !isCC(iv.Tool) {
			continue
		}
		ncc++
		var cfgArgs, svcArgs []int
		for k, a := range iv.Argv {
			if strings.HasPrefix(a, "-DCONFIG_BYTES=") {
				cfgArgs = append(cfgArgs, k)
			}
			if strings.HasPrefix(a, "-DSERVICE_NAME=") {
				svcArgs = append(svcArgs, k)
			}
		}
		before := len(vs)
		wantSvc := j.Case.Format == builder.FILETYPE_WINDOWS_SERVICE_EXE && name != nil
		switch {
		case wantSvc && len(svcArgs) == 1 && serviceArgOK(iv.Argv[svcArgs[0]], *name):
			svcIdx[[2]int{i, svcArgs[0]}] = true
		case wantSvc:
			var got []string
			for _, k := range svcArgs {
				got = append(got, iv.Argv[k])
			}
			add("shell:service-name-not-literal", "service name %q did not reach the compiler as one literal -DSERVICE_NAME=\"...\" argument; SERVICE_NAME arguments seen: %q", *name, got)
		case len(svcArgs) > 0:
			add("shell:service-name-not-literal", "SERVICE_NAME defined although the format is not a service executable / no name was given: %q", iv.Argv[svcArgs[0]])
		}
		if nv := len(vs); nv > before {
			continue // the command line is already damaged by the name: the define is not judged
		}
		if len(cfgArgs) != 1 {
			add("build:config-define-count", "compiler received %d CONFIG_BYTES defines", len(cfgArgs))
		} else if by, ok := parseConfigDefine(iv.Argv[cfgArgs[0]]); !ok {
			add("build:config-define-syntax", "CONFIG_BYTES define is not a brace list of bytes: %.80s", iv.Argv[cfgArgs[0]])
		} else {
			build := 1
			if j.Case.Format == builder.FILETYPE_WINDOWS_RAW_BINARY {
				build = 2 // Build() has produced the block once itself before the inner DLL build does
			}
			if f := cfgCheck(j.Case, by, build); f != nil {
				add("cfg", "%s %s: %s", f.Kind, f.Field, f.Detail)
			}
		}
	}
	// (3) apart from the name, the command lines equal those of the plain-name twin
	if base != nil && !j.Baseline {
		bIdx := map[[2]int]bool{}
		for i, iv := range base.Inv {
			for k, a := range iv.Argv {
				if isCC(iv.Tool) && strings.HasPrefix(a, "-DSERVICE_NAME=") {
					bIdx[[2]int{i, k}] = true
				}
			}
		}
		a, b := normInv(res.Inv, svcIdx), normInv(base.Inv, bIdx)
		// a build refused before the compiler ran is fine; otherwise the tool
		// invocations have to be the same
		already := false
		for _, v := range vs {
			if v.sig == "shell:service-name-not-literal" {
				already = true
			}
		}
		if !already && ncc > 0 && strings.Join(a, "\n") != strings.Join(b, "\n") {
			d := ""
			for i := 0; i < len(a) || i < len(b); i++ {
				var x, y string
				if i < len(a) {
					x = a[i]
				}
				if i < len(b) {
					y = b[i]
				}
				if x != y {
					d = fmt.Sprintf("invocation #%d: with this name %.700s / with a plain name %.700s", i, x, y)
					break
				}
			}
			add("shell:service-name-not-literal", "service name %q changed the tool command lines: %s", deref(name), d)
		}
		if base.Ok && !res.Ok && (name == nil || rePlain.MatchString(*name) || j.Case.Format != builder.FILETYPE_WINDOWS_SERVICE_EXE) {
			add("build:failed-for-valid-request", "Build() failed although the same request with service name HavocSvc succeeded; console: %q", res.Msgs)
		}
		if !res.Ok {
			notes = append(notes, "refused")
		}
	}
	if j.Baseline && !res.Ok {
		add("build:failed-for-valid-request", "Build() failed for a request all of whose settings are encodable; console: %q", res.Msgs)
	}
	return
}
