package c13

// Reference side of the C13 monitor. Everything in this file is written from the Demon's
// sources (payloads/Demon/src/Demon.c DemonConfig(), src/core/Command.c InWorkingHours(),
// include/core/SleepObf.h, include/common/Defines.h, include/core/Memory.h,
// include/inject/Inject.h, include/core/TransportHttp.h) and from the operator client's
// option lists (client/src/UserInterface/Dialogs/Payload.cc) — never from builder.go.

import (
	"fmt"
	"math/big"
	"regexp"
	"sort"
	"strconv"
	"strings"

	"verifh/demon"
)

// ---------------------------------------------------------------------------------------
// DemonConfig() as the Demon executes it (TRANSPORT_HTTP / TRANSPORT_SMB variants)

type hostEnt struct {
	Host string
	Term bool
	Len  int // byte length of the field (a host of Length 0 is skipped by the Demon)
	Port uint32
}

type wstr struct {
	S    string
	Term bool // a NUL code unit lies inside the field (Spawn64/Spawn86/Name/Proxy user+pass are used without an added terminator)
}

type demonCfg struct {
	Sleeping, Jitter                                          uint32
	Alloc, Execute                                            int32
	Spawn64, Spawn86                                          wstr
	Technique, JmpBypass, StackSpoof, ProxyLoad, SysInd, Amsi int32
	// TRANSPORT_HTTP
	KillDate     int64
	WorkingHours uint32
	Method       wstr
	Rotation     int32
	NHosts       uint32
	Hosts        []hostEnt
	Secure       int32
	UserAgent    wstr
	NHeaders     uint32
	Headers      []wstr
	NUris        uint32
	Uris         []wstr
	ProxyOn      int32
	ProxyURL     wstr
	ProxyUser    wstr
	ProxyPass    wstr
	// TRANSPORT_SMB
	Pipe wstr
}

func rdW(r *demon.Rd) wstr {
	s, t := r.WStr()
	return wstr{s, t}
}

// readDemonConfig mirrors DemonConfig(): the same getters in the same order. It returns a
// description of the first structural problem (short buffer, count that cannot be
// satisfied, bytes left over) in bad.
func readDemonConfig(b []byte, ltype int) (d demonCfg, bad string) {
	r := &demon.Rd{B: b}
	d.Sleeping = r.I32()
	d.Jitter = r.I32()
	d.Alloc = int32(r.I32())
	d.Execute = int32(r.I32())
	d.Spawn64 = rdW(r)
	d.Spawn86 = rdW(r)
	d.Technique = int32(r.I32())
	d.JmpBypass = int32(r.I32())
	d.StackSpoof = int32(r.I32())
	d.ProxyLoad = int32(r.I32())
	d.SysInd = int32(r.I32())
	d.Amsi = int32(r.I32())
	if r.Err {
		return d, "short buffer inside the option block"
	}
	switch ltype {
	case ltHTTP:
		d.KillDate = int64(r.I64())
		d.WorkingHours = r.I32()
		d.Method = rdW(r)
		d.Rotation = int32(r.I32())
		d.NHosts = r.I32()
		if r.Err || uint64(d.NHosts)*8 > uint64(len(r.B)) {
			return d, fmt.Sprintf("host count %d cannot be satisfied by the remaining %d bytes", d.NHosts, len(r.B))
		}
		for i := uint32(0); i < d.NHosts; i++ {
			before := len(r.B)
			s, t := r.WStr()
			ln := before - len(r.B) - 4
			p := r.I32()
			d.Hosts = append(d.Hosts, hostEnt{s, t, ln, p})
		}
		d.Secure = int32(r.I32())
		d.UserAgent = rdW(r)
		d.NHeaders = r.I32()
		if r.Err || uint64(d.NHeaders)*4 > uint64(len(r.B)) {
			return d, fmt.Sprintf("header count %d cannot be satisfied by the remaining %d bytes", d.NHeaders, len(r.B))
		}
		for i := uint32(0); i < d.NHeaders; i++ {
			d.Headers = append(d.Headers, rdW(r))
		}
		d.NUris = r.I32()
		if r.Err || uint64(d.NUris)*4 > uint64(len(r.B)) {
			return d, fmt.Sprintf("uri count %d cannot be satisfied by the remaining %d bytes", d.NUris, len(r.B))
		}
		for i := uint32(0); i < d.NUris; i++ {
			d.Uris = append(d.Uris, rdW(r))
		}
		d.ProxyOn = int32(r.I32())
		if d.ProxyOn != 0 {
			d.ProxyURL = rdW(r)
			d.ProxyUser = rdW(r)
			d.ProxyPass = rdW(r)
		}
	case ltSMB:
		d.Pipe = rdW(r)
		d.KillDate = int64(r.I64())
		d.WorkingHours = r.I32()
	}
	if r.Err {
		return d, "short buffer inside the transport block"
	}
	if len(r.B) != 0 {
		return d, fmt.Sprintf("%d bytes left after the last field the Demon reads", len(r.B))
	}
	return d, ""
}

// unpackWH is InWorkingHours()'s view of the packed word.
func unpackWH(v uint32) (enabled bool, sh, sm, eh, em int, stray uint32) {
	enabled = (v>>22)&1 == 1
	sh = int((v >> 17) & 0b011111)
	sm = int((v >> 11) & 0b111111)
	eh = int((v >> 6) & 0b011111)
	em = int((v >> 0) & 0b111111)
	stray = v >> 23
	return
}

// ---------------------------------------------------------------------------------------
// Option codes (Demon headers) for the strings the client offers

var (
	codeAlloc     = map[string]int32{"Win32": 1, "Native/Syscall": 2}                                  // DX_MEM_WIN32, DX_MEM_SYSCALL
	codeExecute   = map[string]int32{"Win32": 1, "Native/Syscall": 2}                                  // DX_THREAD_WIN32, DX_THREAD_SYSCALL
	codeTechnique = map[string]int32{"WaitForSingleObjectEx": 0, "Ekko": 1, "Zilean": 2, "Foliage": 3} // SLEEPOBF_*
	codeGadget    = map[string]int32{"None": 0, "jmp rax": 1, "jmp rbx": 2}                            // SLEEPOBF_BYPASS_*
	codeProxyLoad = map[string]int32{"None (LdrLoadDll)": 0, "RtlRegisterWait": 1, "RtlCreateTimer": 2, "RtlQueueWorkItem": 3}
	codeAmsi      = map[string]int32{"None": 0, "Hardware breakpoints": 1}
)

// ---------------------------------------------------------------------------------------
// What a case must produce

type hostWant struct {
	alts [][2]string // acceptable (host, port) pairs; port as decimal text
}

type want struct {
	mustFail []string // reasons: the build has to return an error
	mayFail  []string // reasons why an error is acceptable as well

	sleepCheck bool
	sleep      uint32
	jitter     []int32
	alloc      []int32
	execute    []int32
	spawn64    string
	spawn32    string
	technique  []int32
	gadget     []int32
	stackAny   bool
	stack      bool
	proxyLoad  []int32
	sysInd     bool
	amsi       []int32

	killDate  int64
	wh        whWant
	methods   []string
	rotation  []int32
	hosts     []hostWant
	secure    bool
	ua        string
	headerAlt [][]string
	uriAlt    [][]string
	proxyOn   bool
	proxyURL  string
	proxyUser string
	proxyPass string

	pipe string
}

type whWant struct {
	class          string // empty | valid | edge | grammar | unfit | reversed
	sh, sm, eh, em int
}

var (
	reInt = regexp.MustCompile(`^-?[0-9]+$`)
	reWH  = regexp.MustCompile(`^([0-9]{1,2}):([0-9]{2})-([0-9]{1,2}):([0-9]{2})$`)
	reNat = regexp.MustCompile(`^[0-9]+$`)
)

// classifyWH decides, from the statement's grammar H:MM-H:MM and the Demon's bit layout
// and comparison (Command.c InWorkingHours), what a working-hours string has to lead to.
func classifyWH(s string) whWant {
	if s == "" {
		return whWant{class: "empty"}
	}
	m := reWH.FindStringSubmatch(s)
	if m == nil {
		return whWant{class: "grammar"}
	}
	sh, _ := strconv.Atoi(m[1])
	sm, _ := strconv.Atoi(m[2])
	eh, _ := strconv.Atoi(m[3])
	em, _ := strconv.Atoi(m[4])
	w := whWant{sh: sh, sm: sm, eh: eh, em: em}
	switch {
	case sh > 31 || eh > 31 || sm > 63 || em > 63:
		w.class = "unfit" // does not fit 5 / 6 bits
	case eh < sh || (eh == sh && em < sm):
		w.class = "reversed" // the Demon would never be inside its working hours
	case sh > 23 || eh > 23 || sm > 59 || em > 59 || (eh == sh && em == sm) ||
		(len(m[1]) == 2 && m[1][0] == '0') || (len(m[3]) == 2 && m[3][0] == '0'):
		w.class = "edge" // encodable, but not a time of day / one-minute window / zero-padded hour: either outcome
	default:
		w.class = "valid"
	}
	return w
}

func classifyInt(s *string) string {
	if s == nil {
		return "absent"
	}
	if !reInt.MatchString(*s) {
		return "nonnumeric"
	}
	v, _ := new(big.Int).SetString(*s, 10)
	switch {
	case v.Sign() < 0 && v.Cmp(big.NewInt(-1<<31)) >= 0:
		return "negative"
	case v.Sign() < 0 || v.Cmp(big.NewInt(1<<31-1)) > 0:
		return "beyond32"
	case v.Cmp(big.NewInt(100)) > 0:
		return "gt100"
	}
	return "0..100"
}

func hostShape(h string) string {
	n := strings.Count(h, ":")
	switch {
	case n == 0:
		return "noport"
	case n == 1:
		if reNat.MatchString(h[strings.Index(h, ":")+1:]) {
			return "port"
		}
		return "badport"
	}
	return "multicolon"
}

func enumWant(code map[string]int32, v string, what string, w *want) []int32 {
	if c, ok := code[v]; ok {
		return []int32{c}
	}
	// a value the client does not offer: no code exists for it. Failing the build or the
	// neutral code 0 ("default"/"none") are both accepted.
	w.mayFail = append(w.mayFail, what+"-unknown")
	return []int32{0}
}

func expect(c *Case) *want {
	w := &want{}
	o := &c.Opt
	// Sleep (DWORD seconds)
	switch classifyInt(o.Sleep) {
	case "absent":
		w.mayFail = append(w.mayFail, "sleep-absent")
		w.sleepCheck, w.sleep = true, 0
	case "nonnumeric":
		w.mustFail = append(w.mustFail, "sleep-nonnumeric")
	case "beyond32":
		w.mayFail = append(w.mayFail, "sleep-beyond-32-bit")
	case "negative":
		w.mayFail = append(w.mayFail, "sleep-negative")
		v, _ := strconv.ParseInt(*o.Sleep, 10, 64)
		w.sleepCheck, w.sleep = true, uint32(int32(v))
	default:
		v, _ := strconv.ParseInt(*o.Sleep, 10, 64)
		w.sleepCheck, w.sleep = true, uint32(v)
	}
	// Jitter (percent)
	switch classifyInt(o.Jitter) {
	case "absent":
		w.mayFail = append(w.mayFail, "jitter-absent")
		w.jitter = []int32{0}
	case "nonnumeric":
		w.mustFail = append(w.mustFail, "jitter-nonnumeric")
	case "0..100":
		v, _ := strconv.Atoi(*o.Jitter)
		w.jitter = []int32{int32(v)}
	default:
		w.mustFail = append(w.mustFail, "jitter-range")
	}
	w.sysInd = o.Indirect
	w.alloc = enumWant(codeAlloc, o.Alloc, "alloc", w)
	w.execute = enumWant(codeExecute, o.Execute, "execute", w)
	w.spawn64, w.spawn32 = o.Spawn64, o.Spawn32
	if o.Spawn64 == "" || o.Spawn32 == "" {
		w.mayFail = append(w.mayFail, "spawn-empty")
	}
	w.technique = enumWant(codeTechnique, o.Technique, "technique", w)
	w.gadget = enumWant(codeGadget, o.Gadget, "gadget", w)
	w.stack = o.StackDup
	if len(w.technique) == 1 && w.technique[0] == 0 {
		// without sleep obfuscation the Demon never looks at the gadget or the stack flag
		// (Obf.c SleepObf: default branch), so "as chosen" and "cleared" are equivalent.
		w.gadget = append(w.gadget, 0)
		w.stackAny = true
	}
	w.proxyLoad = enumWant(codeProxyLoad, o.ProxyLoading, "proxyloading", w)
	w.amsi = enumWant(codeAmsi, o.Amsi, "amsi", w)

	switch c.LType {
	case ltHTTP:
		h := c.HTTP
		dp := h.PortConn
		if dp == "" {
			dp = h.PortBind
		}
		dpOK := reNat.MatchString(dp)
		w.killDate = h.KillDate
		w.wh = classifyWH(h.WorkingHours)
		switch strings.ToLower(h.Methode) {
		case "post":
			w.methods = []string{"POST"}
		case "get":
			// the listener only routes POST to the agent handler; a Demon told to GET
			// reaches the decoy 404 page
			w.mustFail = append(w.mustFail, "method-get")
		case "":
			w.methods = []string{"POST"}
			w.mayFail = append(w.mayFail, "method-empty")
		default:
			w.methods = []string{"POST", h.Methode}
			w.mayFail = append(w.mayFail, "method-other")
		}
		switch h.HostRotation {
		case "round-robin":
			w.rotation = []int32{0}
		case "random":
			w.rotation = []int32{1}
		default:
			w.rotation = []int32{0, 1}
			w.mayFail = append(w.mayFail, "rotation-unknown")
		}
		needDefault := false
		for _, hs := range h.Hosts {
			var hw hostWant
			names := func(n string) []string {
				// an interface name may be replaced by that interface's IPv4 address
				if ip := ifaceIPv4(n); ip != "" {
					return []string{n, ip}
				}
				return []string{n}
			}
			switch hostShape(hs) {
			case "noport":
				needDefault = true
				for _, n := range names(hs) {
					hw.alts = append(hw.alts, [2]string{n, dp})
				}
			case "port":
				i := strings.Index(hs, ":")
				for _, n := range names(hs[:i]) {
					hw.alts = append(hw.alts, [2]string{n, normNat(hs[i+1:])})
				}
			case "badport":
				w.mustFail = append(w.mustFail, "host-port-nonnumeric")
			default:
				// more than one colon: host:port syntax cannot express it unambiguously.
				// Failing is fine; succeeding is fine only if nothing of the string is lost.
				w.mayFail = append(w.mayFail, "host-multicolon")
				hw.alts = append(hw.alts, [2]string{hs, dp})
				if i := strings.LastIndex(hs, ":"); reNat.MatchString(hs[i+1:]) {
					hw.alts = append(hw.alts, [2]string{hs[:i], normNat(hs[i+1:])})
					if strings.HasPrefix(hs, "[") && strings.HasSuffix(hs[:i], "]") {
						hw.alts = append(hw.alts, [2]string{hs[1 : i-1], normNat(hs[i+1:])})
					}
				}
				if strings.HasPrefix(hs, "[") && strings.HasSuffix(hs, "]") {
					hw.alts = append(hw.alts, [2]string{hs[1 : len(hs)-1], dp})
				}
			}
			w.hosts = append(w.hosts, hw)
		}
		if !dpOK {
			if needDefault {
				w.mustFail = append(w.mustFail, "default-port-nonnumeric")
			} else {
				w.mayFail = append(w.mayFail, "default-port-nonnumeric-unused")
			}
		}
		w.secure = h.Secure
		w.ua = h.UserAgent
		var hostPart []string
		if h.HostHeader != "" {
			hostPart = []string{"Host: " + h.HostHeader}
		}
		if len(h.Headers) == 0 {
			w.headerAlt = [][]string{hostPart, append([]string{"Content-type: */*"}, hostPart...)}
		} else {
			w.headerAlt = [][]string{append(append([]string{}, h.Headers...), hostPart...)}
		}
		if len(h.Uris) == 0 {
			w.uriAlt = [][]string{{}, {"/"}}
		} else {
			w.uriAlt = [][]string{h.Uris}
		}
		w.proxyOn = h.Proxy.Enabled
		if h.Proxy.Enabled {
			w.proxyURL = h.Proxy.Type + "://" + h.Proxy.Host + ":" + h.Proxy.Port
			w.proxyUser = h.Proxy.Username
			w.proxyPass = h.Proxy.Password
		}
	case ltSMB:
		s := c.SMB
		w.pipe = `\\.\pipe\` + s.PipeName // CreateNamedPipeW( Instance->Config.Transport.Name, … )
		w.killDate = s.KillDate
		w.wh = classifyWH(s.WorkingHours)
	}
	switch w.wh.class {
	case "grammar":
		w.mustFail = append(w.mustFail, "wh-grammar")
	case "unfit":
		w.mustFail = append(w.mustFail, "wh-unfit")
	case "reversed":
		w.mustFail = append(w.mustFail, "wh-reversed")
	case "edge":
		w.mayFail = append(w.mayFail, "wh-edge")
	}
	return w
}

func normNat(s string) string {
	t := strings.TrimLeft(s, "0")
	if t == "" {
		return "0"
	}
	return t
}

func contains(l []string, s string) bool {
	for _, x := range l {
		if x == s {
			return true
		}
	}
	return false
}

func in32(l []int32, v int32) bool {
	for _, x := range l {
		if x == v {
			return true
		}
	}
	return false
}

// ---------------------------------------------------------------------------------------
// Comparison

type finding struct {
	Kind   string `json:"kind"`   // mismatch | malformed | accepted-unencodable | rejected-valid | panic
	Field  string `json:"field"`  // first differing field in the Demon's read order / reason
	Detail string `json:"detail"` // expected vs observed
	Build  int    `json:"build"`  // which of the consecutive builds on the same listener (1-based)
}

func sameMultiset(got []wstr, want []string) bool {
	if len(got) != len(want) {
		return false
	}
	a := make([]string, len(got))
	for i := range got {
		a[i] = got[i].S
	}
	b := append([]string{}, want...)
	sort.Strings(a)
	sort.Strings(b)
	for i := range a {
		if a[i] != b[i] {
			return false
		}
	}
	return true
}

func strs(l []wstr) []string {
	o := make([]string, len(l))
	for i := range l {
		o[i] = l[i].S
	}
	return o
}

// compare returns the first difference, in DemonConfig()'s read order, between what the
// Demon would hold after start-up and what the operator chose.
func compare(c *Case, w *want, b []byte) *finding {
	d, bad := readDemonConfig(b, c.LType)
	mm := func(field, format string, a ...any) *finding {
		return &finding{Kind: "mismatch", Field: field, Detail: fmt.Sprintf(format, a...)}
	}
	// a structural problem is reported at the first field that is already wrong, if any;
	// otherwise as "malformed"
	ws := func(field string, got wstr, want string) *finding {
		if got.S != want {
			return mm(field, "want %q, Demon reads %q", want, got.S)
		}
		if !got.Term {
			return mm(field, "%q carries no terminating NUL inside its length", want)
		}
		return nil
	}
	truth := func(field string, got int32, want bool) *finding {
		if (got != 0) != want {
			return mm(field, "want %v, Demon reads %d", want, got)
		}
		return nil
	}
	set := func(field string, got int32, want []int32, chosen string) *finding {
		if !in32(want, got) {
			return mm(field, "option %q: want one of %v, Demon reads %d", chosen, want, got)
		}
		return nil
	}
	checks := []func() *finding{
		func() *finding {
			if w.sleepCheck && d.Sleeping != w.sleep {
				return mm("sleep", "want %d, Demon reads %d", w.sleep, d.Sleeping)
			}
			return nil
		},
		func() *finding { return set("jitter", int32(d.Jitter), w.jitter, deref(c.Opt.Jitter)) },
		func() *finding { return set("alloc", d.Alloc, w.alloc, c.Opt.Alloc) },
		func() *finding { return set("execute", d.Execute, w.execute, c.Opt.Execute) },
		func() *finding { return ws("spawn64", d.Spawn64, w.spawn64) },
		func() *finding { return ws("spawn32", d.Spawn86, w.spawn32) },
		func() *finding { return set("sleep_technique", d.Technique, w.technique, c.Opt.Technique) },
		func() *finding { return set("jmp_bypass", d.JmpBypass, w.gadget, c.Opt.Gadget) },
		func() *finding {
			if w.stackAny {
				return nil
			}
			return truth("stack_spoof", d.StackSpoof, w.stack)
		},
		func() *finding { return set("proxy_loading", d.ProxyLoad, w.proxyLoad, c.Opt.ProxyLoading) },
		func() *finding { return truth("sys_indirect", d.SysInd, w.sysInd) },
		func() *finding { return set("amsi_etw_patch", d.Amsi, w.amsi, c.Opt.Amsi) },
	}
	whCheck := func() *finding {
		en, sh, sm, eh, em, stray := unpackWH(d.WorkingHours)
		if w.wh.class == "empty" {
			if en {
				return mm("working_hours", "none configured, Demon reads 0x%08x (enabled bit set)", d.WorkingHours)
			}
			return nil
		}
		if !en || sh != w.wh.sh || sm != w.wh.sm || eh != w.wh.eh || em != w.wh.em || stray != 0 {
			return mm("working_hours", "want enabled %d:%02d-%d:%02d, Demon unpacks 0x%08x as enabled=%v %d:%02d-%d:%02d stray=0x%x",
				w.wh.sh, w.wh.sm, w.wh.eh, w.wh.em, d.WorkingHours, en, sh, sm, eh, em, stray)
		}
		return nil
	}
	kd := func() *finding {
		if d.KillDate != w.killDate {
			return mm("kill_date", "want %d, Demon reads %d", w.killDate, d.KillDate)
		}
		return nil
	}
	switch c.LType {
	case ltHTTP:
		checks = append(checks, kd, whCheck,
			func() *finding {
				if !contains(w.methods, d.Method.S) {
					return mm("method", "want one of %q, Demon reads %q", w.methods, d.Method.S)
				}
				if !d.Method.Term {
					return mm("method", "no terminating NUL")
				}
				return nil
			},
			func() *finding { return set("host_rotation", d.Rotation, w.rotation, c.HTTP.HostRotation) },
			func() *finding {
				if int(d.NHosts) != len(w.hosts) {
					return mm("host_count", "want %d, Demon reads %d", len(w.hosts), d.NHosts)
				}
				return nil
			},
			func() *finding {
				for i := range w.hosts {
					if i >= len(d.Hosts) {
						break
					}
					g := d.Hosts[i]
					ok := false
					for _, a := range w.hosts[i].alts {
						if g.Host == a[0] && strconv.FormatUint(uint64(g.Port), 10) == a[1] {
							ok = true
						}
					}
					if !ok {
						f := "host"
						for _, a := range w.hosts[i].alts {
							if g.Host == a[0] {
								f = "host_port"
							}
						}
						return mm(f, "host #%d %q: want one of %q, Demon reads (%q, %d)", i, c.HTTP.Hosts[i], w.hosts[i].alts, g.Host, g.Port)
					}
					if !g.Term || g.Len == 0 {
						return mm("host", "host #%d: empty or unterminated field", i)
					}
				}
				return nil
			},
			func() *finding { return truth("secure", d.Secure, w.secure) },
			func() *finding { return ws("user_agent", d.UserAgent, w.ua) },
			func() *finding {
				cnt := false
				for _, alt := range w.headerAlt {
					if sameMultiset(d.Headers, alt) && int(d.NHeaders) == len(alt) {
						return nil
					}
					if int(d.NHeaders) == len(alt) {
						cnt = true
					}
				}
				f := "header_count"
				if cnt {
					f = "header"
				}
				return mm(f, "want %q, Demon reads %d: %q", w.headerAlt, d.NHeaders, strs(d.Headers))
			},
			func() *finding {
				for _, h := range d.Headers {
					if !h.Term {
						return mm("header", "unterminated header %q", h.S)
					}
				}
				return nil
			},
			func() *finding {
				cnt := false
				for _, alt := range w.uriAlt {
					if sameMultiset(d.Uris, alt) && int(d.NUris) == len(alt) {
						return nil
					}
					if int(d.NUris) == len(alt) {
						cnt = true
					}
				}
				f := "uri_count"
				if cnt {
					f = "uri"
				}
				return mm(f, "want %q, Demon reads %d: %q", w.uriAlt, d.NUris, strs(d.Uris))
			},
			func() *finding { return truth("proxy_enabled", d.ProxyOn, w.proxyOn) },
			func() *finding {
				if !w.proxyOn {
					return nil
				}
				if f := ws("proxy_url", d.ProxyURL, w.proxyURL); f != nil {
					return f
				}
				if f := ws("proxy_user", d.ProxyUser, w.proxyUser); f != nil {
					return f
				}
				return ws("proxy_pass", d.ProxyPass, w.proxyPass)
			},
		)
	case ltSMB:
		checks = append(checks,
			func() *finding { return ws("pipe_name", d.Pipe, w.pipe) },
			kd, whCheck)
	}
	for _, ck := range checks {
		if f := ck(); f != nil {
			if bad != "" {
				f.Detail += " [and: " + bad + "]"
			}
			return f
		}
	}
	if bad != "" {
		return &finding{Kind: "malformed", Field: "layout", Detail: bad}
	}
	return nil
}

func deref(s *string) string {
	if s == nil {
		return "<absent>"
	}
	return *s
}
