// Package c13 holds the workload and monitor for property C13 (see /verif/DESIGN.md §3).
package c13
