package c13

import (
	"encoding/json"
	"fmt"
	"io"
	"math/rand"
	"os"
	"strings"
	"time"

	"Havoc/pkg/logger"

	"verifh/lib"
)

func init() {
	if root := os.Getenv(childEnv); root != "" {
		// re-executed by runBatch: run the builds and leave (never reaches lib.Main)
		childMain(root)
		os.Exit(0)
	}
	lib.Register("C13", run)
}

func newRand(seed, n int64) *rand.Rand {
	return rand.New(rand.NewSource(seed*1000003 + n*7919 + 13))
}

func run(c *lib.Ctx) {
	logger.SetStdOut(io.Discard)
	c.Rule("A: one case = (build options JSON, listener configuration, format, arch, number of consecutive builds on the same listener); " +
		"distinct = distinct canonical JSON of the case. Sources: the full product of every enumerated option value incl. an unknown one " +
		"(10800 combinations), a grid of working-hours strings over the accepted grammar, and seeded random cases. " +
		"B: one case = one real Build() with stub compiler/assembler for a (hostile service name, format, arch, valid options+listener) tuple plus its plain-name twin.")
	c.Assume(
		"reference reader and option codes are written from payloads/Demon (Demon.c DemonConfig, Command.c InWorkingHours, SleepObf.h, Defines.h, Memory.h, Inject.h, TransportHttp.h)",
		"a value the client does not offer (unknown enumerated option, empty spawn path, absent Sleep/Jitter key, method other than POST/GET, unknown rotation, zero-padded or out-of-day working hours, host with more than one colon) may either fail the build or be encoded as stated in ref.go; everything else is must-succeed or must-fail",
		"without sleep obfuscation the Demon ignores jump gadget and stack duplication: chosen value and 0 are both accepted there",
		"header and URI order is not significant; an empty header/URI list may be sent as empty or as the single default (Content-type: */*, /)",
		"ports are generated inside 1..65535; sleep values beyond 32 bits are accepted either way; strings are valid UTF-8 without NUL",
		"monitor B: the stub tools see what a real compiler/assembler would be started with; the real MinGW compile of the define is out of reach",
	)
	if c.Replay != nil {
		replay(c)
		return
	}

	t0 := time.Now()
	phase := func(name string) {
		c.ObserveMax("max:wall_ms_"+name, time.Since(t0).Milliseconds()) // evidence only, never an oracle input
		t0 = time.Now()
	}
	// ---- A1: full product of the enumerated options (+ one unknown value each) ----
	i := 0
	for _, al := range vAlloc {
		for _, ex := range vAlloc {
			for _, te := range vTechnique {
				for _, ga := range vGadget {
					for _, pl := range vProxyLoad {
						for _, am := range vAmsi {
							for b := 0; b < 4; b++ {
								i++
								if !c.Mine(i) {
									continue
								}
								cs := baseline()
								cs.Opt.Alloc, cs.Opt.Execute, cs.Opt.Technique, cs.Opt.Gadget = al, ex, te, ga
								cs.Opt.ProxyLoading, cs.Opt.Amsi = pl, am
								cs.Opt.StackDup, cs.Opt.Indirect = b&1 == 1, b&2 == 2
								if c.Thorough() { // same option product, each with a different listener
									r := newRand(c.Seed, int64(i))
									if r.Intn(4) > 0 {
										cs.HTTP = genHTTP(r)
									} else {
										cs.LType, cs.HTTP, cs.SMB = ltSMB, nil, genSMB(r)
									}
								}
								checkCase(c, cs, true)
								c.Observe("A.option_product_cases", 1)
							}
						}
					}
				}
			}
		}
	}
	c.Checkpoint()
	phase("A1_option_product")

	// ---- A2: working-hours strings over the grammar [12]?[0-9]:[0-6][0-9]-… ----
	hours, mins := whHoursQuick, whMinsQuick
	if c.Thorough() {
		hours, mins = nil, nil
		for h := 0; h < 30; h++ {
			hours = append(hours, fmt.Sprint(h))
		}
		for m := 0; m < 70; m++ {
			mins = append(mins, fmt.Sprintf("%02d", m))
		}
	}
	i = 0
	whBase := baseline()
	whBase.LType, whBase.HTTP, whBase.SMB = ltSMB, nil, &SMBL{PipeName: "demon_pipe"}
	for _, sh := range hours {
		for _, sm := range mins {
			for _, eh := range hours {
				for _, em := range mins {
					i++
					if !c.Mine(i) {
						continue
					}
					cs := *whBase
					smb := *whBase.SMB
					cs.SMB = &smb
					smb.WorkingHours = sh + ":" + sm + "-" + eh + ":" + em
					if i%5 == 0 { // the same through the HTTP branch
						b := baseline()
						b.HTTP.WorkingHours = smb.WorkingHours
						cs = *b
					}
					checkCase(c, &cs, true)
					c.Observe("A.wh_grid_cases", 1)
					c.Observe("whgrid:"+classifyWH(smb.WorkingHours).class, 1)
				}
			}
		}
	}
	for k, s := range vWHBad {
		if c.Mine(k) {
			cs := *whBase
			cs.SMB = &SMBL{PipeName: "demon_pipe", WorkingHours: s}
			checkCase(c, &cs, true)
		}
	}
	c.Checkpoint()
	phase("A2_wh_grid")

	// ---- A3: random options x listeners ----
	n := c.N(24000, 1000000)
	for k := 0; k < n; k++ {
		cs := genCase(c.Rng)
		observeCase(c, cs)
		checkCase(c, cs, true)
		c.SampleSome(5000, func() any { return cs })
		if k%50000 == 49999 {
			c.Checkpoint()
		}
	}
	c.Checkpoint()
	phase("A3_random")

	// ---- B: real builds with hostile operator strings ----
	total := 160
	if c.Thorough() {
		total = 6400
	}
	var jobs []buildJob
	for id := 0; id < total; id++ {
		if c.Mine(id) {
			j := genJob(id, c.Seed, c.Thorough())
			jobs = append(jobs, twinOf(&j), j)
		}
	}
	runJobs(c, jobs)
	phase("B_builds")
}

// runJobs executes build jobs (twin first, then the job) in batches and judges them.
func runJobs(c *lib.Ctx, jobs []buildJob) int {
	nviol := 0
	const batch = 80
	for off := 0; off < len(jobs); off += batch {
		end := off + batch
		if end > len(jobs) {
			end = len(jobs)
		}
		part := jobs[off:end]
		jb, _ := json.Marshal(part)
		c.Cur("buildbatch", jb)
		out, err := runBatch(part)
		if err != nil {
			c.Inconclusive("monitor B: " + err.Error())
			continue
		}
		if !out.Strace {
			c.Inconclusive("monitor B: strace -f -e trace=execve not usable here; the list of executed programs was observed through the PATH wrappers and canary files only")
		} else {
			c.Observe("B.batches_under_strace", 1)
		}
		byID := map[int]*buildJob{}
		for i := range part {
			byID[part[i].ID] = &part[i]
		}
		for i := range part {
			j := &part[i]
			res := out.Results[j.ID]
			if res == nil {
				c.Inconclusive("monitor B: no result for a job")
				continue
			}
			c.Eval()
			if res.Infra != "" {
				c.Inconclusive("monitor B: " + res.Infra)
				continue
			}
			var base *buildResult
			if !j.Baseline {
				base = out.Results[j.Twin]
			}
			execs := out.Execs[j.ID]
			if out.Strace {
				c.Observe("B.execve_seen", int64(len(execs)))
			}
			cfgSeen := 0
			vs, notes := judgeBuild(j, res, base, execs, out.Strace, out.SB, func(cs *Case, b []byte, build int) *finding {
				cfgSeen++
				return judge(cs, expect(cs), &outcome{Bytes: b}, build)
			})
			c.Observe("B.config_defines_checked", int64(cfgSeen))
			if res.Ok {
				c.Observe("B.build_ok", 1)
			} else {
				c.Observe("B.build_failed", 1)
			}
			for _, iv := range res.Inv {
				c.Observe("B.invocations_"+iv.Tool, 1)
			}
			for _, nt := range notes {
				c.Observe("B."+nt, 1)
			}
			if !j.Baseline {
				c.DistinctBytes([]byte(fmt.Sprintf("B|%s|%v|%d|%d|%d", j.Name, j.NoName, j.Case.Format, j.Case.Arch, j.Case.LType)))
				c.Observe("B.hostile_builds", 1)
				if j.Case.Format == 2 {
					c.Observe("B.hostile_service_builds", 1)
				}
			}
			c.SampleSome(40, func() any {
				return map[string]any{"kind": "B", "service_name": j.serviceName("<sandbox>"), "format": j.Case.Format, "ok": res.Ok, "tools": len(res.Inv)}
			})
			for _, v := range vs {
				if v.sig == "cfg" {
					// name the defect with monitor A's minimiser if the same request fails there too
					eq := j.Case.clone()
					eq.Opt.ServiceName = j.serviceName(out.SB.Root)
					if eq.Format == 5 {
						eq.Repeat = 2
					}
					if checkCase(c, eq, false) > 0 {
						nviol++
						continue
					}
					v.sig = fmt.Sprintf("build:config-define-differs{format=%d}", j.Case.Format)
				}
				nviol++
				c.Violation(v.sig, v.what, witnessB{Kind: "B", Signature: v.sig, Job: *j, Name: j.serviceName("@ROOT@"), What: v.what,
					Result: scrub(res, out.SB.Root), Baseline: scrub(base, out.SB.Root), Execs: scrubExecs(execs, out.SB.Root)})
			}
		}
		c.Checkpoint()
	}
	return nviol
}

func scrub(r *buildResult, root string) *buildResult {
	if r == nil {
		return nil
	}
	b, _ := json.Marshal(r)
	var o buildResult
	json.Unmarshal([]byte(strings.ReplaceAll(string(b), root, "@ROOT@")), &o)
	// keep witnesses small: drop the long byte lists
	for i := range o.Inv {
		for k, a := range o.Inv[i].Argv {
			if strings.HasPrefix(a, "-DCONFIG_BYTES=") && len(a) > 120 {
				o.Inv[i].Argv[k] = a[:120] + "…"
			}
		}
	}
	return &o
}

func scrubExecs(e []execRec, root string) []execRec {
	var o []execRec
	for _, x := range e {
		o = append(o, execRec{Path: strings.ReplaceAll(x.Path, root, "@ROOT@"), Line: tailStr(strings.ReplaceAll(x.Line, root, "@ROOT@"), 300)})
	}
	return o
}

// replay re-runs exactly one earlier witness.
func replay(c *lib.Ctx) {
	var k struct {
		Kind string   `json:"kind"`
		Case *Case    `json:"case"`
		Job  buildJob `json:"job"`
	}
	if err := json.Unmarshal(c.Replay, &k); err != nil {
		c.Inconclusive("replay: witness not understood: " + err.Error())
		return
	}
	switch k.Kind {
	case "A":
		if k.Case == nil {
			c.Inconclusive("replay: no case in witness")
			return
		}
		checkCase(c, k.Case, true)
	case "B":
		j := k.Job
		if j.Case == nil {
			c.Inconclusive("replay: no job in witness")
			return
		}
		if j.Baseline {
			runJobs(c, []buildJob{j})
		} else {
			runJobs(c, []buildJob{twinOf(&j), j})
		}
		c.DistinctBytes([]byte("replay"))
	default:
		c.Inconclusive("replay: unknown witness kind " + k.Kind)
	}
}
