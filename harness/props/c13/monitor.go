package c13

import (
	"encoding/hex"
	"encoding/json"
	"fmt"
	"sort"
	"strings"

	"Havoc/pkg/common/builder"
	"Havoc/pkg/handlers"

	"verifh/lib"
)

// ---------------------------------------------------------------------------------------
// Driving the real builder (monitor A: PatchConfig is the lowest exported entry that
// yields the configuration bytes; Build() only formats them into the CONFIG_BYTES define)

type outcome struct {
	Bytes  []byte
	Failed bool
	Err    string
	Msgs   []string
	Panic  string
	Stack  string
}

func httpListener(h *HTTPL) *handlers.HTTP {
	l := &handlers.HTTP{}
	l.Config.Name = "c13"
	l.Config.Hosts = append(make([]string, 0, len(h.Hosts)), h.Hosts...)
	l.Config.HostBind = "0.0.0.0"
	l.Config.PortBind = h.PortBind
	l.Config.PortConn = h.PortConn
	l.Config.Headers = append(make([]string, 0, len(h.Headers)), h.Headers...)
	l.Config.HostHeader = h.HostHeader
	l.Config.Uris = append(make([]string, 0, len(h.Uris)), h.Uris...)
	l.Config.UserAgent = h.UserAgent
	l.Config.Secure = h.Secure
	l.Config.KillDate = h.KillDate
	l.Config.WorkingHours = h.WorkingHours
	l.Config.Methode = h.Methode
	l.Config.HostRotation = h.HostRotation
	l.Config.Proxy.Enabled = h.Proxy.Enabled
	l.Config.Proxy.Type = h.Proxy.Type
	l.Config.Proxy.Host = h.Proxy.Host
	l.Config.Proxy.Port = h.Proxy.Port
	l.Config.Proxy.Username = h.Proxy.Username
	l.Config.Proxy.Password = h.Proxy.Password
	return l
}

func smbListener(s *SMBL) *handlers.SMB {
	l := &handlers.SMB{}
	l.Config.Name = "c13"
	l.Config.PipeName = s.PipeName
	l.Config.KillDate = s.KillDate
	l.Config.WorkingHours = s.WorkingHours
	return l
}

func listenerOf(c *Case) any {
	if c.LType == ltHTTP {
		return httpListener(c.HTTP)
	}
	return smbListener(c.SMB)
}

// newBuilder prepares a builder the way dispatch.go (Gate/Stageless) does.
func newBuilder(c *Case, cfg builder.BuilderConfig, listener any, msgs *[]string) (*builder.Builder, error) {
	b := builder.NewBuilder(cfg)
	b.ClientId = "c13"
	b.SendConsoleMessage = func(t, m string) {
		if len(*msgs) < 40 {
			*msgs = append(*msgs, t+": "+m)
		}
	}
	if err := b.SetConfig(c.Opt.optionsJSON()); err != nil {
		return nil, err
	}
	b.SetArch(c.Arch)
	b.SetFormat(c.Format)
	b.SetListener(c.LType, listener)
	return b, nil
}

// runReal builds c.Repeat payloads, one after the other, for the same listener object and
// returns the configuration block of each.
func runReal(c *Case) []outcome {
	lst := listenerOf(c)
	n := c.Repeat
	if n < 1 {
		n = 1
	}
	outs := make([]outcome, 0, n)
	for k := 0; k < n; k++ {
		var o outcome
		pv, stack := lib.Guard(func() {
			b, err := newBuilder(c, builder.BuilderConfig{}, lst, &o.Msgs)
			if err != nil {
				o.Failed, o.Err = true, "SetConfig: "+err.Error()
				return
			}
			by, err := b.PatchConfig()
			if err != nil {
				o.Failed, o.Err = true, err.Error()
				return
			}
			o.Bytes = by
		})
		if pv != nil {
			o.Panic, o.Stack = lib.PanicSig(pv, stack), stack
		}
		outs = append(outs, o)
	}
	return outs
}

// judge compares one build's outcome with what the case requires.
func judge(c *Case, w *want, o *outcome, build int) *finding {
	switch {
	case o.Panic != "":
		return &finding{Kind: "panic", Field: o.Panic, Detail: tailStr(o.Stack, 1500), Build: build}
	case o.Failed:
		if len(w.mustFail) > 0 || len(w.mayFail) > 0 {
			return nil
		}
		return &finding{Kind: "rejected-valid", Field: "build", Detail: "every setting is encodable, yet the build failed: " + o.Err, Build: build}
	case len(w.mustFail) > 0:
		d, _ := readDemonConfig(o.Bytes, c.LType)
		return &finding{Kind: "accepted-unencodable", Field: w.mustFail[0],
			Detail: fmt.Sprintf("settings that cannot be encoded %v produced a configuration block instead of an error; the Demon would read %s", w.mustFail, brief(&d, c.LType)), Build: build}
	}
	if f := compare(c, w, o.Bytes); f != nil {
		f.Build = build
		return f
	}
	return nil
}

func evaluate(c *Case) (*finding, []outcome) {
	w := expect(c)
	outs := runReal(c)
	for k := range outs {
		if f := judge(c, w, &outs[k], k+1); f != nil {
			return f, outs
		}
	}
	return nil, outs
}

func brief(d *demonCfg, lt int) string {
	if lt == ltSMB {
		return fmt.Sprintf("jitter=%d pipe=%q wh=0x%x", d.Jitter, d.Pipe.S, d.WorkingHours)
	}
	var hs []string
	for _, h := range d.Hosts {
		hs = append(hs, fmt.Sprintf("%s:%d", h.Host, h.Port))
	}
	return fmt.Sprintf("sleep=%d jitter=%d method=%q wh=0x%x hosts=%v", d.Sleeping, int32(d.Jitter), d.Method.S, d.WorkingHours, hs)
}

func tailStr(s string, n int) string {
	if len(s) > n {
		return s[:n]
	}
	return s
}

// ---------------------------------------------------------------------------------------
// Minimisation: move a failing case towards the baseline, dimension by dimension, keeping
// only what is needed for it to fail. The violation signature is built from what is left.

type dim struct {
	name  string
	http  bool // only meaningful for HTTP listeners
	smb   bool
	get   func(c *Case) any
	reset func(c, base *Case)
	label func(c *Case) string
}

func boolS(b bool) string { return fmt.Sprint(b) }

func portClass(s string) string {
	switch {
	case s == "":
		return "empty"
	case reNat.MatchString(s):
		return "num"
	}
	return "nonnum"
}

func listClass(l []string) string {
	if len(l) == 0 {
		return "empty"
	}
	return "nonempty"
}

var smbBase = SMBL{PipeName: "demon_pipe"}

var dims = []dim{
	{name: "ltype", get: func(c *Case) any { return c.LType },
		reset: func(c, b *Case) { c.LType = ltHTTP; c.HTTP = b.clone().HTTP; c.SMB = nil },
		label: func(c *Case) string { return "smb" }},
	{name: "repeat", get: func(c *Case) any { return c.Repeat }, reset: func(c, b *Case) { c.Repeat = b.Repeat },
		label: func(c *Case) string { return fmt.Sprint(c.Repeat) }},
	{name: "format", get: func(c *Case) any { return c.Format }, reset: func(c, b *Case) { c.Format = b.Format },
		label: func(c *Case) string { return fmt.Sprint(c.Format) }},
	{name: "arch", get: func(c *Case) any { return c.Arch }, reset: func(c, b *Case) { c.Arch = b.Arch },
		label: func(c *Case) string { return fmt.Sprint(c.Arch) }},
	{name: "service_name", get: func(c *Case) any { return c.Opt.ServiceName }, reset: func(c, b *Case) { c.Opt.ServiceName = b.Opt.ServiceName },
		label: func(c *Case) string { return "" }},
	{name: "sleep", get: func(c *Case) any { return c.Opt.Sleep }, reset: func(c, b *Case) { c.Opt.Sleep = b.Opt.Sleep },
		label: func(c *Case) string { return classifyInt(c.Opt.Sleep) }},
	{name: "jitter", get: func(c *Case) any { return c.Opt.Jitter }, reset: func(c, b *Case) { c.Opt.Jitter = b.Opt.Jitter },
		label: func(c *Case) string { return classifyInt(c.Opt.Jitter) }},
	{name: "indirect", get: func(c *Case) any { return c.Opt.Indirect }, reset: func(c, b *Case) { c.Opt.Indirect = b.Opt.Indirect },
		label: func(c *Case) string { return boolS(c.Opt.Indirect) }},
	{name: "alloc", get: func(c *Case) any { return c.Opt.Alloc }, reset: func(c, b *Case) { c.Opt.Alloc = b.Opt.Alloc },
		label: func(c *Case) string { return c.Opt.Alloc }},
	{name: "execute", get: func(c *Case) any { return c.Opt.Execute }, reset: func(c, b *Case) { c.Opt.Execute = b.Opt.Execute },
		label: func(c *Case) string { return c.Opt.Execute }},
	{name: "spawn64", get: func(c *Case) any { return c.Opt.Spawn64 }, reset: func(c, b *Case) { c.Opt.Spawn64 = b.Opt.Spawn64 },
		label: func(c *Case) string { return "" }},
	{name: "spawn32", get: func(c *Case) any { return c.Opt.Spawn32 }, reset: func(c, b *Case) { c.Opt.Spawn32 = b.Opt.Spawn32 },
		label: func(c *Case) string { return "" }},
	{name: "technique", get: func(c *Case) any { return c.Opt.Technique }, reset: func(c, b *Case) { c.Opt.Technique = b.Opt.Technique },
		label: func(c *Case) string { return c.Opt.Technique }},
	{name: "gadget", get: func(c *Case) any { return c.Opt.Gadget }, reset: func(c, b *Case) { c.Opt.Gadget = b.Opt.Gadget },
		label: func(c *Case) string { return c.Opt.Gadget }},
	{name: "stackdup", get: func(c *Case) any { return c.Opt.StackDup }, reset: func(c, b *Case) { c.Opt.StackDup = b.Opt.StackDup },
		label: func(c *Case) string { return boolS(c.Opt.StackDup) }},
	{name: "proxyloading", get: func(c *Case) any { return c.Opt.ProxyLoading }, reset: func(c, b *Case) { c.Opt.ProxyLoading = b.Opt.ProxyLoading },
		label: func(c *Case) string { return c.Opt.ProxyLoading }},
	{name: "amsi", get: func(c *Case) any { return c.Opt.Amsi }, reset: func(c, b *Case) { c.Opt.Amsi = b.Opt.Amsi },
		label: func(c *Case) string { return c.Opt.Amsi }},

	{name: "hosts", http: true, get: func(c *Case) any { return c.HTTP.Hosts },
		reset: func(c, b *Case) { c.HTTP.Hosts = append([]string{}, b.HTTP.Hosts...) },
		label: func(c *Case) string {
			m := map[string]bool{}
			for _, h := range c.HTTP.Hosts {
				m[hostShape(h)] = true
			}
			var l []string
			for k := range m {
				l = append(l, k)
			}
			sort.Strings(l)
			return strings.Join(l, "+")
		}},
	{name: "portconn", http: true, get: func(c *Case) any { return c.HTTP.PortConn }, reset: func(c, b *Case) { c.HTTP.PortConn = b.HTTP.PortConn },
		label: func(c *Case) string { return portClass(c.HTTP.PortConn) }},
	{name: "portbind", http: true, get: func(c *Case) any { return c.HTTP.PortBind }, reset: func(c, b *Case) { c.HTTP.PortBind = b.HTTP.PortBind },
		label: func(c *Case) string { return portClass(c.HTTP.PortBind) }},
	{name: "headers", http: true, get: func(c *Case) any { return c.HTTP.Headers },
		reset: func(c, b *Case) { c.HTTP.Headers = append([]string{}, b.HTTP.Headers...) },
		label: func(c *Case) string { return listClass(c.HTTP.Headers) }},
	{name: "hostheader", http: true, get: func(c *Case) any { return c.HTTP.HostHeader }, reset: func(c, b *Case) { c.HTTP.HostHeader = b.HTTP.HostHeader },
		label: func(c *Case) string { return "set" }},
	{name: "uris", http: true, get: func(c *Case) any { return c.HTTP.Uris },
		reset: func(c, b *Case) { c.HTTP.Uris = append([]string{}, b.HTTP.Uris...) },
		label: func(c *Case) string { return listClass(c.HTTP.Uris) }},
	{name: "useragent", http: true, get: func(c *Case) any { return c.HTTP.UserAgent }, reset: func(c, b *Case) { c.HTTP.UserAgent = b.HTTP.UserAgent },
		label: func(c *Case) string { return "" }},
	{name: "secure", http: true, get: func(c *Case) any { return c.HTTP.Secure }, reset: func(c, b *Case) { c.HTTP.Secure = b.HTTP.Secure },
		label: func(c *Case) string { return boolS(c.HTTP.Secure) }},
	{name: "killdate", http: true, get: func(c *Case) any { return c.HTTP.KillDate }, reset: func(c, b *Case) { c.HTTP.KillDate = b.HTTP.KillDate },
		label: func(c *Case) string { return killClass(c.HTTP.KillDate) }},
	{name: "workinghours", http: true, get: func(c *Case) any { return c.HTTP.WorkingHours }, reset: func(c, b *Case) { c.HTTP.WorkingHours = b.HTTP.WorkingHours },
		label: func(c *Case) string { return classifyWH(c.HTTP.WorkingHours).class }},
	{name: "methode", http: true, get: func(c *Case) any { return c.HTTP.Methode }, reset: func(c, b *Case) { c.HTTP.Methode = b.HTTP.Methode },
		label: func(c *Case) string { return strings.ToLower(c.HTTP.Methode) }},
	{name: "rotation", http: true, get: func(c *Case) any { return c.HTTP.HostRotation }, reset: func(c, b *Case) { c.HTTP.HostRotation = b.HTTP.HostRotation },
		label: func(c *Case) string { return c.HTTP.HostRotation }},
	{name: "proxy", http: true, get: func(c *Case) any { return c.HTTP.Proxy }, reset: func(c, b *Case) { c.HTTP.Proxy = b.HTTP.Proxy },
		label: func(c *Case) string {
			if c.HTTP.Proxy.Enabled {
				return "on"
			}
			return "off"
		}},

	{name: "pipe", smb: true, get: func(c *Case) any { return c.SMB.PipeName }, reset: func(c, b *Case) { c.SMB.PipeName = smbBase.PipeName },
		label: func(c *Case) string { return "" }},
	{name: "killdate", smb: true, get: func(c *Case) any { return c.SMB.KillDate }, reset: func(c, b *Case) { c.SMB.KillDate = 0 },
		label: func(c *Case) string { return killClass(c.SMB.KillDate) }},
	{name: "workinghours", smb: true, get: func(c *Case) any { return c.SMB.WorkingHours }, reset: func(c, b *Case) { c.SMB.WorkingHours = "" },
		label: func(c *Case) string { return classifyWH(c.SMB.WorkingHours).class }},
}

func killClass(k int64) string {
	switch {
	case k == 0:
		return "0"
	case k < 0:
		return "negative"
	case k > 0xFFFFFFFF:
		return "gt32bit"
	}
	return "le32bit"
}

func (d *dim) applies(c *Case) bool {
	if d.http && c.LType != ltHTTP {
		return false
	}
	if d.smb && c.LType != ltSMB {
		return false
	}
	return true
}

func jsonEq(a, b any) bool {
	x, _ := json.Marshal(a)
	y, _ := json.Marshal(b)
	return string(x) == string(y)
}

func (d *dim) atBase(c, base *Case) bool {
	if d.smb {
		t := &Case{LType: ltSMB, SMB: &SMBL{PipeName: smbBase.PipeName}}
		return jsonEq(d.get(c), d.get(t))
	}
	if d.name == "ltype" {
		return c.LType == ltHTTP
	}
	return jsonEq(d.get(c), d.get(base))
}

// minimise returns a 1-minimal failing case (w.r.t. the dimensions and list elements),
// its finding, the names of the dimensions that differ from the baseline, and the number
// of evaluations spent.
func minimise(orig *Case, fails func(*Case) *finding) (*Case, *finding, []int, int) {
	base := baseline()
	cur := orig.clone()
	f := fails(cur)
	evals := 1
	if f == nil {
		return cur, nil, nil, evals
	}
	try := func(mod func(c *Case)) bool {
		t := cur.clone()
		mod(t)
		if jsonEq(t, cur) {
			return false
		}
		evals++
		if g := fails(t); g != nil {
			cur, f = t, g
			return true
		}
		return false
	}
	for pass := 0; pass < 3; pass++ {
		changed := false
		for i := range dims {
			d := &dims[i]
			if !d.applies(cur) || d.atBase(cur, base) {
				continue
			}
			if try(func(c *Case) { d.reset(c, base) }) {
				changed = true
			}
		}
		if cur.Repeat > 2 && try(func(c *Case) { c.Repeat = 2 }) {
			changed = true
		}
		if cur.LType == ltHTTP {
			shrink := func(get func(c *Case) *[]string, min int) {
				for i := 0; i < len(*get(cur)); {
					if len(*get(cur)) <= min {
						break
					}
					idx := i
					if try(func(c *Case) {
						l := get(c)
						*l = append(append([]string{}, (*l)[:idx]...), (*l)[idx+1:]...)
					}) {
						changed = true
					} else {
						i++
					}
				}
			}
			shrink(func(c *Case) *[]string { return &c.HTTP.Hosts }, 1)
			shrink(func(c *Case) *[]string { return &c.HTTP.Headers }, 0)
			shrink(func(c *Case) *[]string { return &c.HTTP.Uris }, 0)
		}
		if !changed {
			break
		}
	}
	var cause []int
	for i := range dims {
		d := &dims[i]
		if d.applies(cur) && !d.atBase(cur, base) {
			cause = append(cause, i)
		}
	}
	return cur, f, cause, evals
}

func signature(c *Case, f *finding, cause []int) string {
	var parts []string
	for _, i := range cause {
		d := &dims[i]
		if l := d.label(c); l != "" {
			parts = append(parts, d.name+"="+l)
		} else {
			parts = append(parts, d.name)
		}
	}
	return fmt.Sprintf("%s:%s{%s}", f.Kind, f.Field, strings.Join(parts, ","))
}

// ---------------------------------------------------------------------------------------

type witnessA struct {
	Kind      string   `json:"kind"` // "A"
	Signature string   `json:"signature"`
	Case      *Case    `json:"case"`     // minimised
	Original  *Case    `json:"original"` // as generated
	Finding   *finding `json:"finding"`
	Options   string   `json:"options_json"`
	Outcomes  []string `json:"config_blocks_hex_or_error"`
	Expect    string   `json:"expected"`
}

func describeWant(w *want) string {
	return fmt.Sprintf("must-fail=%v may-fail=%v", w.mustFail, w.mayFail)
}

// checkCase runs one case through the monitor. All violations found are reported; after
// each, the responsible dimensions are neutralised and the rest of the case is examined
// again, so that one defect does not hide another.
func checkCase(c *lib.Ctx, cs *Case, distinct bool) int {
	c.Cur("caseA", cs.key())
	f, outs := evaluate(cs)
	c.EvalN(len(outs))
	if distinct {
		c.DistinctBytes(cs.key())
	}
	w := expect(cs)
	switch {
	case f != nil:
		c.Observe("A.case_with_violation", 1)
	case outs[0].Failed && len(w.mustFail) > 0:
		c.Observe("A.failed_as_required", 1)
	case outs[0].Failed:
		c.Observe("A.failed_allowed", 1)
	case len(w.mayFail) > 0:
		c.Observe("A.roundtrip_ok_lenient", 1)
	default:
		c.Observe("A.roundtrip_ok", 1)
	}
	if f == nil {
		return 0
	}
	n := 0
	work := cs.clone()
	base := baseline()
	for round := 0; round < 4 && f != nil; round++ {
		if km, g, t := tryFast(c, work, f); km != nil {
			c.Violation(km.sig, "", nil) // counted only: three full witnesses of this signature exist already
			c.Observe("A.attributed_without_minimising", 1)
			n++
			work, f = t, g
			continue
		}
		min, mf, cause, evals := minimise(work, func(t *Case) *finding { g, _ := evaluate(t); return g })
		c.Observe("A.minimiser_evaluations", int64(evals))
		if mf == nil {
			break
		}
		sig := signature(min, mf, cause)
		_, mo := evaluate(min)
		var os []string
		for _, o := range mo {
			switch {
			case o.Panic != "":
				os = append(os, "panic: "+o.Panic)
			case o.Failed:
				os = append(os, "error: "+o.Err)
			default:
				os = append(os, hex.EncodeToString(o.Bytes))
			}
		}
		c.Violation(sig, fmt.Sprintf("%s %s (build #%d on this listener): %s", mf.Kind, mf.Field, mf.Build, mf.Detail),
			witnessA{Kind: "A", Signature: sig, Case: min, Original: cs, Finding: mf, Options: min.Opt.optionsJSON(), Outcomes: os, Expect: describeWant(expect(min))})
		n++
		km := minCache[sig]
		if km == nil {
			km = &knownMin{sig: sig, cause: cause, kind: mf.Kind, field: mf.Field, min: min}
			minCache[sig] = km
			minOrder = append(minOrder, sig)
		}
		km.full++
		if len(cause) == 0 {
			break
		}
		for _, i := range cause {
			if dims[i].applies(work) {
				dims[i].reset(work, base)
			}
		}
		f, _ = evaluate(work)
	}
	return n
}

// Defects of the tree make a sizeable share of all cases fail in the same few ways. Once a
// signature has been established three times by full minimisation in this worker, a later
// failing case that carries the same class of values in the responsible dimensions is
// attributed to it if neutralising just those dimensions removes (or changes) its first
// finding; whatever still fails afterwards is examined further. One in sixteen
// such cases is minimised in full regardless.
type knownMin struct {
	sig         string
	cause       []int
	kind, field string
	min         *Case
	full        int
}

var (
	minCache = map[string]*knownMin{}
	minOrder []string
	fastSeen int
)

func tryFast(c *lib.Ctx, work *Case, f *finding) (*knownMin, *finding, *Case) {
	base := baseline()
	for _, sig := range minOrder {
		km := minCache[sig]
		if km.full < 3 || len(km.cause) == 0 {
			continue
		}
		match := true
		for _, i := range km.cause {
			d := &dims[i]
			if !d.applies(work) || !d.applies(km.min) || d.atBase(work, base) {
				match = false
				break
			}
			if d.name == "repeat" {
				if work.Repeat < km.min.Repeat {
					match = false
				}
			} else if d.label(work) != d.label(km.min) {
				match = false
			}
		}
		if !match {
			continue
		}
		fastSeen++
		if fastSeen%16 == 0 {
			return nil, nil, nil
		}
		t := work.clone()
		for _, i := range km.cause {
			dims[i].reset(t, base)
		}
		g, _ := evaluate(t)
		if g == nil || g.Kind != f.Kind || g.Field != f.Field {
			return km, g, t
		}
	}
	return nil, nil, nil
}

func observeCase(c *lib.Ctx, cs *Case) {
	c.Observe("opt.technique="+cs.Opt.Technique, 1)
	c.Observe("opt.gadget="+cs.Opt.Gadget, 1)
	c.Observe("opt.alloc="+cs.Opt.Alloc, 1)
	c.Observe("opt.execute="+cs.Opt.Execute, 1)
	c.Observe("opt.proxyloading="+cs.Opt.ProxyLoading, 1)
	c.Observe("opt.amsi="+cs.Opt.Amsi, 1)
	c.Observe("opt.sleep:"+classifyInt(cs.Opt.Sleep), 1)
	c.Observe("opt.jitter:"+classifyInt(cs.Opt.Jitter), 1)
	if cs.LType == ltHTTP {
		c.Observe("listener.http", 1)
		c.Observe("wh:"+classifyWH(cs.HTTP.WorkingHours).class, 1)
		for _, h := range cs.HTTP.Hosts {
			c.Observe("host:"+hostShape(h), 1)
		}
		c.Observe("portconn:"+portClass(cs.HTTP.PortConn), 1)
		c.Observe("headers:"+listClass(cs.HTTP.Headers), 1)
		c.Observe("uris:"+listClass(cs.HTTP.Uris), 1)
		c.Observe("method:"+strings.ToLower(cs.HTTP.Methode), 1)
		if cs.HTTP.Proxy.Enabled {
			c.Observe("proxy:on", 1)
		}
	} else {
		c.Observe("listener.smb", 1)
		c.Observe("wh:"+classifyWH(cs.SMB.WorkingHours).class, 1)
	}
}
