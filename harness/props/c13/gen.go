package c13

import (
	"encoding/json"
	"fmt"
	"math/rand"
	"net"
	"strings"
	"sync"
)

const (
	ltHTTP = 1 // handlers.LISTENER_HTTP
	ltSMB  = 2 // handlers.LISTENER_PIVOT_SMB
)

// Options are the operator's build options as the client serialises them
// (Payload.cc GetConfigAsJson): strings for line edits and combo boxes, booleans for check
// boxes, "Injection" as a sub-object.
type Options struct {
	Sleep        *string `json:"sleep"`  // nil: key absent
	Jitter       *string `json:"jitter"` // nil: key absent
	Indirect     bool    `json:"indirect"`
	Alloc        string  `json:"alloc"`
	Execute      string  `json:"execute"`
	Spawn64      string  `json:"spawn64"`
	Spawn32      string  `json:"spawn32"`
	Technique    string  `json:"technique"`
	Gadget       string  `json:"gadget"`
	StackDup     bool    `json:"stackdup"`
	ProxyLoading string  `json:"proxyloading"`
	Amsi         string  `json:"amsi"`
	ServiceName  *string `json:"service_name"` // nil: key absent
}

type Proxy struct {
	Enabled  bool   `json:"enabled"`
	Type     string `json:"type"`
	Host     string `json:"host"`
	Port     string `json:"port"`
	Username string `json:"user"`
	Password string `json:"pass"`
}

type HTTPL struct {
	Hosts        []string `json:"hosts"`
	PortBind     string   `json:"port_bind"`
	PortConn     string   `json:"port_conn"`
	Headers      []string `json:"headers"`
	HostHeader   string   `json:"host_header"`
	Uris         []string `json:"uris"`
	UserAgent    string   `json:"user_agent"`
	Secure       bool     `json:"secure"`
	KillDate     int64    `json:"kill_date"`
	WorkingHours string   `json:"working_hours"`
	Methode      string   `json:"methode"`
	HostRotation string   `json:"host_rotation"`
	Proxy        Proxy    `json:"proxy"`
}

type SMBL struct {
	PipeName     string `json:"pipe_name"`
	KillDate     int64  `json:"kill_date"`
	WorkingHours string `json:"working_hours"`
}

// Case is one build request: options x listener x format x arch, plus how many payloads
// are built one after the other for the same (live) listener object.
type Case struct {
	Opt    Options `json:"opt"`
	LType  int     `json:"ltype"`
	HTTP   *HTTPL  `json:"http,omitempty"`
	SMB    *SMBL   `json:"smb,omitempty"`
	Format int     `json:"format"` // builder.FILETYPE_*
	Arch   int     `json:"arch"`   // 1 x64, 2 x86
	Repeat int     `json:"repeat"`
}

func (c *Case) clone() *Case {
	b, _ := json.Marshal(c)
	var d Case
	json.Unmarshal(b, &d)
	return &d
}

func (c *Case) key() []byte {
	b, _ := json.Marshal(c)
	return b
}

// optionsJSON is what the client sends in Body.Info["Config"].
func (o *Options) optionsJSON() string {
	m := map[string]any{
		"Indirect Syscall": o.Indirect,
		"Injection": map[string]any{
			"Alloc": o.Alloc, "Execute": o.Execute, "Spawn64": o.Spawn64, "Spawn32": o.Spawn32,
		},
		"Sleep Technique":   o.Technique,
		"Sleep Jmp Gadget":  o.Gadget,
		"Stack Duplication": o.StackDup,
		"Proxy Loading":     o.ProxyLoading,
		"Amsi/Etw Patch":    o.Amsi,
	}
	if o.Sleep != nil {
		m["Sleep"] = *o.Sleep
	}
	if o.Jitter != nil {
		m["Jitter"] = *o.Jitter
	}
	if o.ServiceName != nil {
		m["Service Name"] = *o.ServiceName
	}
	b, _ := json.Marshal(m)
	return string(b)
}

func sp(s string) *string { return &s }

// baseline is a plain valid request. The minimiser moves failing cases towards it.
func baseline() *Case {
	return &Case{
		Opt: Options{
			Sleep: sp("2"), Jitter: sp("15"), Indirect: false,
			Alloc: "Native/Syscall", Execute: "Native/Syscall",
			Spawn64: `C:\Windows\System32\notepad.exe`, Spawn32: `C:\Windows\SysWOW64\notepad.exe`,
			Technique: "Ekko", Gadget: "None", StackDup: false,
			ProxyLoading: "None (LdrLoadDll)", Amsi: "None",
		},
		LType: ltHTTP,
		HTTP: &HTTPL{
			Hosts: []string{"c2.example.com"}, PortBind: "443", PortConn: "",
			Headers: []string{}, HostHeader: "", Uris: []string{}, UserAgent: "Mozilla/5.0 (Windows NT 10.0)",
			Methode: "POST", HostRotation: "round-robin",
		},
		Format: 1, Arch: 1, Repeat: 1,
	}
}

// ---------------------------------------------------------------------------------------
// value pools

var (
	vAlloc     = []string{"Win32", "Native/Syscall", "Bogus"}
	vTechnique = []string{"WaitForSingleObjectEx", "Foliage", "Ekko", "Zilean", "Bogus"}
	vGadget    = []string{"None", "jmp rax", "jmp rbx", "Bogus"}
	vProxyLoad = []string{"None (LdrLoadDll)", "RtlRegisterWait", "RtlCreateTimer", "RtlQueueWorkItem", "Bogus"}
	vAmsi      = []string{"None", "Hardware breakpoints", "Bogus"}

	vSleepOK  = []string{"0", "1", "2", "10", "60", "3600", "86400", "2147483647"}
	vSleepOdd = []string{"-1", "-2147483648", "abc", "", "1.5", "1e3", "99999999999999999999", "0x10"}
	vJitOK    = []string{"0", "1", "15", "50", "99", "100"}
	vJitBad   = []string{"101", "-1", "1000", "2147483647", "abc", "", "1.5", "-2147483648", "100%"}

	vSpawn = []string{
		`C:\Windows\System32\notepad.exe`, `C:\Windows\SysWOW64\notepad.exe`,
		`C:\Program Files\Internet Explorer\iexplore.exe`, `C:\Windows\System32\werfault.exe -u -p 1234`,
		`c:\ü\𝄞 dir\ß.exe`, `x`, `C:\Windows\System32\rundll32.exe "a",b`,
		`\\?\C:\Windows\System32\svchost.exe -k netsvcs`,
	}
	vHostName = []string{"c2.example.com", "10.0.0.5", "192.168.1.10", "a-b.example.org", "xn--bcher-kva.example",
		"HOST.Example.COM", "h", "localhost", "cdn-1.example.net", "172.16.254.1"}
	vPortOK  = []string{"1", "80", "443", "8080", "8443", "40056", "65535"}
	vPortBad = []string{"abc", "", "80a", "0x50", "8 0", "http", "４４３"}
	vHostV6  = []string{"::1", "[::1]:443", "2001:db8::1", "[2001:db8::1]", "fe80::1%eth0",
		"2001:470:1:2:3:4:5:6", "1:2:3:4:5:6:7:8", "h.example.com:80:90", "h.example.com:80:", "[::1]"}
	vHeaders = []string{"Content-type: text/plain", "X-Havoc: true", "Accept: */*", `X-Quote: "q" 'r'`,
		"X-Üni: ü€𝄞", "Cookie: a=b; c=d", "X-Empty:", "Accept-Language: en-US,en;q=0.5", "X-Long: " + strings.Repeat("ab", 300)}
	vHostHdr = []string{"cdn.example.net", "front.example.com:8443", "a"}
	vUris    = []string{"/", "/index.php", "/api/v1/update", "/a b", "/ü/𝄞", "", "/js/jquery-3.6.0.min.js?x=1&y=2", "/" + strings.Repeat("p/", 200)}
	vUA      = []string{"Mozilla/5.0 (Windows NT 10.0)", "", "Mozilla/5.0 (Windows NT 6.1; WOW64) AppleWebKit/537.36 (KHTML, like Gecko) Chrome/96.0.4664.110 Safari/537.36", "ü-agent/1.0 𝄞", "curl/8"}
	vKill    = []int64{0, 0, 0, 1, 133500000000000000, 1 << 32, 1<<32 + 5, 1<<63 - 1, -1, 0x0102030405060708, 0xFFFFFFFF}
	vMethod  = []string{"POST", "POST", "POST", "POST", "POST", "POST", "POST", "POST", "post", "Post", "GET", "get", "Get", "PUT", ""}
	vRot     = []string{"round-robin", "random", "round-robin", "random", "", "bogus"}
	vPipe    = []string{"demon_pipe", "a", "pipe with space", "ünï𝄞", `x\y`, "", "mojo.5688.8052.183894939787088877", strings.Repeat("p", 200)}
	vCred    = []string{"", "user", "p@ss:w/rd", "DOMAIN\\admin", "ü𝄞"}

	vWHBad = []string{"abc", "8-17", "8:00", "8:00-", "-17:00", "8:00-17", "8.00-17.00", "8:00_17:00",
		"8:00-17:00-18:00", "123:00-17:00", "8:000-17:00", "8:0-17:00", "a:00-17:00", "８:00-17:00", "8:00-17:0x",
		"8:00-1700", ":-:", "-"}
	whHoursQuick = []string{"0", "1", "8", "9", "10", "17", "19", "20", "23", "24", "25", "29"}
	whMinsQuick  = []string{"00", "01", "30", "59", "60", "61", "63", "64", "69"}
)

func pick[T any](r *rand.Rand, l []T) T { return l[r.Intn(len(l))] }

func genInt(r *rand.Rand, ok, odd []string, pOdd int) *string {
	switch x := r.Intn(100); {
	case x < 2:
		return nil
	case x < 2+pOdd:
		return sp(pick(r, odd))
	}
	return sp(pick(r, ok))
}

func genEnum(r *rand.Rand, l []string) string {
	// known values are equally likely; the unknown one (last) gets about 4 %, "" 1 %
	switch x := r.Intn(100); {
	case x < 4:
		return l[len(l)-1]
	case x < 5:
		return ""
	}
	return l[r.Intn(len(l)-1)]
}

func genOptions(r *rand.Rand) Options {
	o := Options{
		Sleep:        genInt(r, vSleepOK, vSleepOdd, 6),
		Jitter:       genInt(r, vJitOK, vJitBad, 6),
		Indirect:     r.Intn(2) == 0,
		Alloc:        genEnum(r, vAlloc),
		Execute:      genEnum(r, vAlloc),
		Technique:    genEnum(r, vTechnique),
		Gadget:       genEnum(r, vGadget),
		StackDup:     r.Intn(2) == 0,
		ProxyLoading: genEnum(r, vProxyLoad),
		Amsi:         genEnum(r, vAmsi),
	}
	i := r.Intn(len(vSpawn))
	j := r.Intn(len(vSpawn) - 1)
	if j >= i {
		j++
	}
	o.Spawn64, o.Spawn32 = vSpawn[i], vSpawn[j]
	if r.Intn(200) == 0 {
		o.Spawn64 = ""
	}
	if r.Intn(200) == 0 {
		o.Spawn32 = ""
	}
	return o
}

func genWH(r *rand.Rand) string {
	hm := func(h, m int) string { return fmt.Sprintf("%d:%02d", h, m) }
	switch x := r.Intn(100); {
	case x < 40:
		return ""
	case x < 75: // valid
		sh, eh := r.Intn(24), r.Intn(24)
		if sh > eh {
			sh, eh = eh, sh
		}
		sm, em := r.Intn(60), r.Intn(60)
		if sh == eh {
			if sm == em {
				em = (sm + 1) % 60
			}
			if sm > em {
				sm, em = em, sm
			}
		}
		return hm(sh, sm) + "-" + hm(eh, em)
	case x < 85: // whole grammar of the accepted pattern, incl. 24:60, 29:69, reversed, equal
		return pick(r, whHoursQuick) + ":" + pick(r, whMinsQuick) + "-" + pick(r, whHoursQuick) + ":" + pick(r, whMinsQuick)
	case x < 90: // any two-digit fields
		return fmt.Sprintf("%d:%02d-%d:%02d", r.Intn(100), r.Intn(100), r.Intn(100), r.Intn(100))
	case x < 93: // zero padded hours
		return fmt.Sprintf("%02d:%02d-%02d:%02d", r.Intn(10), r.Intn(60), 10+r.Intn(14), r.Intn(60))
	}
	return pick(r, vWHBad)
}

func genHost(r *rand.Rand) string {
	switch x := r.Intn(100); {
	case x < 45:
		return pick(r, vHostName)
	case x < 88:
		return pick(r, vHostName) + ":" + pick(r, vPortOK)
	case x < 91:
		return pick(r, vHostName) + ":" + pick(r, vPortBad)
	case x < 92:
		return "lo" // an interface name
	}
	return pick(r, vHostV6)
}

func genList(r *rand.Rand, pool []string, max int) []string {
	n := r.Intn(max + 1)
	out := make([]string, 0, n)
	perm := r.Perm(len(pool))
	for i := 0; i < n && i < len(pool); i++ {
		out = append(out, pool[perm[i]])
	}
	return out
}

func genHTTP(r *rand.Rand) *HTTPL {
	h := &HTTPL{}
	n := 1 + r.Intn(4)
	for i := 0; i < n; i++ {
		h.Hosts = append(h.Hosts, genHost(r))
	}
	switch x := r.Intn(100); {
	case x < 55:
		h.PortConn = ""
	case x < 96:
		h.PortConn = pick(r, vPortOK)
	default:
		h.PortConn = pick(r, []string{"abc", "80a", "0x50", "http"})
	}
	if r.Intn(100) < 96 {
		h.PortBind = pick(r, vPortOK)
	} else {
		h.PortBind = pick(r, vPortBad)
	}
	if h.PortConn == h.PortBind && h.PortConn != "" {
		h.PortBind = "40056"
		if h.PortConn == "40056" {
			h.PortBind = "80"
		}
	}
	h.Headers = genList(r, vHeaders, 4)
	if r.Intn(2) == 0 {
		h.HostHeader = pick(r, vHostHdr)
	}
	h.Uris = genList(r, vUris, 4)
	h.UserAgent = pick(r, vUA)
	h.Secure = r.Intn(2) == 0
	h.KillDate = pick(r, vKill)
	if r.Intn(4) == 0 {
		h.KillDate = r.Int63()
	}
	h.WorkingHours = genWH(r)
	h.Methode = pick(r, vMethod)
	h.HostRotation = pick(r, vRot)
	if r.Intn(100) < 45 {
		h.Proxy.Enabled = true
	}
	if h.Proxy.Enabled || r.Intn(3) == 0 {
		h.Proxy.Type = pick(r, []string{"http", "https"})
		h.Proxy.Host = pick(r, []string{"proxy.corp.local", "10.1.1.1"})
		h.Proxy.Port = pick(r, []string{"8080", "3128"})
		i := r.Intn(len(vCred))
		j := r.Intn(len(vCred) - 1)
		if j >= i {
			j++
		}
		h.Proxy.Username, h.Proxy.Password = vCred[i], vCred[j]
	}
	return h
}

func genSMB(r *rand.Rand) *SMBL {
	s := &SMBL{PipeName: pick(r, vPipe), KillDate: pick(r, vKill), WorkingHours: genWH(r)}
	if r.Intn(4) == 0 {
		s.KillDate = r.Int63()
	}
	return s
}

// genCase: about 60 % of the requests that contain a must-fail setting are drawn again, so
// that most cases exercise the field-by-field comparison.
func genCase(r *rand.Rand) *Case {
	for {
		c := genCase1(r)
		if len(expect(c).mustFail) == 0 || r.Intn(100) >= 60 {
			return c
		}
	}
}

func genCase1(r *rand.Rand) *Case {
	c := &Case{Opt: genOptions(r), Format: 1 + r.Intn(5), Arch: 1 + r.Intn(2), Repeat: 1}
	if r.Intn(100) < 80 {
		c.LType, c.HTTP = ltHTTP, genHTTP(r)
	} else {
		c.LType, c.SMB = ltSMB, genSMB(r)
	}
	if c.Format == 2 {
		c.Opt.ServiceName = sp(pick(r, []string{"HavocSvc", "", "WinUpdate"}))
	}
	switch x := r.Intn(100); {
	case x < 25:
		c.Repeat = 2
	case x < 30:
		c.Repeat = 3
	}
	return c
}

// validCase is a request every part of which is inside the must-succeed domain (used by
// the build monitor, which needs builds that proceed to the compiler).
func validCase(r *rand.Rand) *Case {
	for {
		c := genCase(r)
		c.Repeat = 1
		w := expect(c)
		if len(w.mustFail) == 0 && len(w.mayFail) == 0 {
			return c
		}
	}
}

// ---------------------------------------------------------------------------------------

var (
	ifOnce sync.Once
	ifMap  = map[string]string{}
)

// ifaceIPv4: first IPv4 address of a local interface with that name ("" if none).
func ifaceIPv4(name string) string {
	ifOnce.Do(func() {
		ifs, err := net.Interfaces()
		if err != nil {
			return
		}
		for _, i := range ifs {
			addrs, err := i.Addrs()
			if err != nil {
				continue
			}
			for _, a := range addrs {
				if n, ok := a.(*net.IPNet); ok {
					if v4 := n.IP.To4(); v4 != nil {
						ifMap[i.Name] = v4.String()
						break
					}
				}
			}
		}
	})
	return ifMap[name]
}
