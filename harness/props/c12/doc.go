// Package c12 holds the workload and monitor for property C12 (see /verif/DESIGN.md §3).
package c12
