package c12

// Reference model for C12: listener configurations, requests, the admission predicate of
// the property statement and the feature product that the workload enumerates. Nothing in
// this file calls the code under test.

import (
	"fmt"
	"net"
	"strings"
)

// Cfg is the part of a listener configuration the property speaks about.
type Cfg struct {
	Uris    []string `json:"uris"`
	Headers []string `json:"headers"` // "Name: value"
	UA      string   `json:"ua"`
	Redir   bool     `json:"redir"`
	Resp    []string `json:"resp"` // "Name: value"
}

// Req is one concrete request. Hdr is written on the wire in this order and with exactly
// these names; it contains User-Agent and X-Forwarded-For when they are sent.
type Req struct {
	Method string      `json:"method"`
	Target string      `json:"target"`
	Hdr    [][2]string `json:"hdr"`
	Peer   string      `json:"peer,omitempty"` // in-process only: RemoteAddr given to the handler
	Body   string      `json:"body"`           // reg | checkin | junk
}

// Case is a self-contained, replayable evaluation.
type Case struct {
	Transport string `json:"transport"` // inproc | tcp4 | tcp6
	TrustXFF  bool   `json:"trust_xff"` // Demon.TrustXForwardedFor of the rig profile
	Bind      string `json:"bind,omitempty"`
	Start     Cfg    `json:"start"`              // configuration given to ListenerStart
	Edit      *Cfg   `json:"edit,omitempty"`     // configuration given to ListenerEdit afterwards
	EditVia   string `json:"edit_via,omitempty"` // "operator": the edit arrived as an operator's Listener/Edit package
	Req       Req    `json:"req"`
	Labels    string `json:"labels,omitempty"`
}

func (k *Case) Effective() Cfg {
	if k.Edit != nil {
		return *k.Edit
	}
	return k.Start
}

// splitHeader splits a "Name: value" entry at the FIRST ": " (the value may itself contain
// ": " or ':').
func splitHeader(h string) (name, value string, ok bool) {
	i := strings.Index(h, ": ")
	if i <= 0 {
		return "", "", false
	}
	return h[:i], h[i+2:], true
}

// the two request headers the code documents as ignored
func ignoredHeader(name string) bool {
	return strings.EqualFold(name, "Connection") || strings.EqualFold(name, "Accept-Encoding")
}

// reqHeader returns the value of the request header with that (case-insensitive) name.
func (r *Req) reqHeader(name string) (string, bool) {
	for _, kv := range r.Hdr {
		if strings.EqualFold(kv[0], name) {
			return kv[1], true
		}
	}
	return "", false
}

// failure describes one check of the predicate that the request does not pass.
type failure struct {
	Check  string // method | uri | ua | header
	Name   string // header name
	Detail string // for diagnosis only
}

// admit is the reference predicate of the property statement.
func admit(cfg Cfg, r *Req) (bool, []failure) {
	var f []failure
	if r.Method != "POST" {
		f = append(f, failure{Check: "method", Detail: r.Method})
	}
	if len(cfg.Uris) > 0 {
		in := false
		for _, u := range cfg.Uris {
			if r.Target == u {
				in = true
			}
		}
		if !in {
			f = append(f, failure{Check: "uri", Detail: r.Target})
		}
	}
	if cfg.UA != "" {
		if ua, _ := r.reqHeader("User-Agent"); ua != cfg.UA {
			f = append(f, failure{Check: "ua", Detail: ua})
		}
	}
	for _, h := range cfg.Headers {
		n, v, ok := splitHeader(h)
		if !ok || ignoredHeader(n) {
			continue
		}
		got, present := r.reqHeader(n)
		switch {
		case !present:
			f = append(f, failure{Check: "header", Name: n, Detail: "missing"})
		case got != v:
			d := "wrong"
			if i := strings.Index(v, ": "); i >= 0 && got == v[:i] {
				d = "cut-at-colon-space"
			}
			f = append(f, failure{Check: "header", Name: n, Detail: d})
		}
	}
	return len(f) == 0, f
}

func failureClasses(f []failure) string {
	seen := map[string]bool{}
	var out []string
	for _, x := range f {
		if !seen[x.Check] {
			seen[x.Check] = true
			out = append(out, x.Check)
		}
	}
	return strings.Join(out, "+")
}

// onlyColonSpaceCut: every failed check is a header whose configured value contains ": "
// and whose request value is exactly the part before the first ": ".
func onlyColonSpaceCut(f []failure) bool {
	if len(f) == 0 {
		return false
	}
	for _, x := range f {
		if x.Check != "header" || x.Detail != "cut-at-colon-space" {
			return false
		}
	}
	return true
}

// hasColonSpaceHeader: the configuration has a checked header whose value contains ": ".
func hasColonSpaceHeader(cfg Cfg) bool {
	for _, h := range cfg.Headers {
		n, v, ok := splitHeader(h)
		if ok && !ignoredHeader(n) && strings.Contains(v, ": ") {
			return true
		}
	}
	return false
}

// expectedExternalIP: the peer address, or the forwarded-for value when (and only when)
// the redirector flag is set. judged=false: the statement does not say what is recorded
// (redirector flag set but no forwarded-for header sent).
func expectedExternalIP(cfg Cfg, r *Req, peerAddr string) (ip string, judged bool) {
	if cfg.Redir {
		v, ok := r.reqHeader("X-Forwarded-For")
		if !ok {
			return "", false
		}
		return v, true
	}
	host, _, err := net.SplitHostPort(peerAddr)
	if err != nil {
		return "", false
	}
	return host, true
}

// ---------------------------------------------------------------------------------------
// configuration feature product

const (
	stdUA    = "Mozilla/5.0 (Windows NT 10.0; Win64; x64) AppleWebKit/537.36 (KHTML, like Gecko) Chrome/120.0.0.0 Safari/537.36"
	wrongUA  = "curl/8.4.0"
	xffValue = "203.0.113.77"
)

var uriSets = [][]string{
	nil,
	{"/index.php"},
	{"/index.php", "/api/v2/sync?id=7", "/static/js/app.min.js"},
	// commas that separate nothing
	{"/feed,rss", "/a,b/c"},
	// the root alone
	{"/"},
}

var headerSets = [][]string{
	nil,
	{"X-Token: s3cr3t-tok"},
	// ignored + value containing ':' + plain
	{"Accept-Encoding: gzip", "X-Url: http://cdn.example:8080/x", "X-Token: s3cr3t-tok"},
	// ignored + value containing ": " + value containing ':'
	{"Connection: Keep-Alive", "X-Meta: kind: beacon", "X-Url: http://cdn.example:8080/x"},
	// value with commas that separate nothing
	{"Accept: text/html,application/xhtml+xml", "X-Token: s3cr3t-tok"},
}

var respSets = [][]string{
	nil,
	{"X-Url: http://a:8/x", "Cache-Control: max-age=0, no-cache", "X-Info: id: 42", "X-Powered-By: PHP/8.1"},
}

type cfgFeat struct{ U, H, UA, Redir, Resp int }

func (f cfgFeat) String() string {
	return fmt.Sprintf("U%d.H%d.UA%d.R%d.RH%d", f.U, f.H, f.UA, f.Redir, f.Resp)
}

func (f cfgFeat) cfg() Cfg {
	c := Cfg{Uris: uriSets[f.U], Headers: headerSets[f.H], Redir: f.Redir == 1, Resp: respSets[f.Resp]}
	if f.UA == 1 {
		c.UA = stdUA
	}
	return c
}

// allCfgFeats enumerates the configuration product in a fixed order.
func allCfgFeats() []cfgFeat {
	var out []cfgFeat
	for redir := 0; redir < 2; redir++ {
		for resp := 0; resp < len(respSets); resp++ {
			for u := 0; u < len(uriSets); u++ {
				for h := 0; h < len(headerSets); h++ {
					for ua := 0; ua < 2; ua++ {
						out = append(out, cfgFeat{U: u, H: h, UA: ua, Redir: redir, Resp: resp})
					}
				}
			}
		}
	}
	return out
}

// ---------------------------------------------------------------------------------------
// request feature product

var methods = []string{"POST", "GET", "PUT", "HEAD"}

type pathVar struct{ Label, Target string }

// pathVariants: for every configured URI the URI itself, a strict prefix of it and the URI
// plus a suffix; plus "/" (strict prefix of every URI) and a path that is nowhere in the
// list. Query strings only appear where the configured URI has one (or where no URI is
// configured at all, so that every target is acceptable).
func pathVariants(cfg Cfg) []pathVar {
	if len(cfg.Uris) == 0 {
		return []pathVar{{"any:root", "/"}, {"any:path", "/index.php"}, {"any:deep", "/other/path/x.bin"}, {"any:query", "/q.php?a=1&b=2"}}
	}
	var out []pathVar
	for i, u := range cfg.Uris {
		out = append(out, pathVar{fmt.Sprintf("in%d", i), u})
		p := "/not" + u // a URI too short to have a proper prefix: another path instead
		if len(u) > 2 {
			p = u[:len(u)-2]
		}
		if j := strings.IndexByte(u, '?'); j > 0 {
			p = u[:j] // the path without its query
		}
		out = append(out, pathVar{fmt.Sprintf("prefix%d", i), p})
		out = append(out, pathVar{fmt.Sprintf("suffix%d", i), u + "x"})
	}
	out = append(out, pathVar{"root", "/"}, pathVar{"notin", "/other/path/x.bin"})
	return out
}

// header value variants
const (
	hvRight = iota
	hvOtherCase
	hvWrong
	hvTrunc
	hvExt
	hvMissing
	hvCount
)

var hvNames = []string{"right", "othercase", "wrong", "trunc", "ext", "missing"}

// for the ignored headers: right / wrong / missing only
var ignoredVariants = []int{hvRight, hvWrong, hvMissing}
var checkedVariants = []int{hvRight, hvOtherCase, hvWrong, hvTrunc, hvExt, hvMissing}

func otherCase(name string) string {
	l := strings.ToLower(name)
	if l != name {
		return l
	}
	return strings.ToUpper(name)
}

// truncValue is a clearly different, shorter value: cut at the first ": ", else at the first
// ':', else in the middle.
func truncValue(v string) string {
	if i := strings.Index(v, ": "); i > 0 {
		return v[:i]
	}
	if i := strings.IndexByte(v, ':'); i > 0 {
		return v[:i]
	}
	return v[:len(v)/2]
}

func headerVariant(name, value string, variant int) (kv [2]string, send bool) {
	switch variant {
	case hvRight:
		return [2]string{name, value}, true
	case hvOtherCase:
		return [2]string{otherCase(name), value}, true
	case hvWrong:
		return [2]string{name, "zz-different-0"}, true
	case hvTrunc:
		return [2]string{name, truncValue(value)}, true
	case hvExt:
		return [2]string{name, value + "-x"}, true
	}
	return kv, false
}

// user agent variants
const (
	uaRight = iota
	uaWrong
	uaTrunc
	uaExt
	uaMissing
	uaCount
)

var uaNames = []string{"right", "wrong", "trunc", "ext", "missing"}

// reqFeat is one point of the request feature product for a given configuration.
type reqFeat struct {
	M, P, UA, XFF, Peer int
	H                   []int // variant per configured header, in configuration order
}

var peers = []string{"127.0.0.1:40000", "[::1]:40000"}

func (f reqFeat) label(pv []pathVar) string {
	var sb strings.Builder
	fmt.Fprintf(&sb, "%s|%s|ua=%s|xff=%d|peer=%d|h=", methods[f.M], pv[f.P].Label, uaNames[f.UA], f.XFF, f.Peer)
	for _, v := range f.H {
		sb.WriteString(hvNames[v][:2])
		sb.WriteByte(',')
	}
	return sb.String()
}

// build makes the concrete request for a feature point.
func (f reqFeat) build(cfg Cfg, pv []pathVar) Req {
	r := Req{Method: methods[f.M], Target: pv[f.P].Target}
	switch f.UA {
	case uaRight:
		r.Hdr = append(r.Hdr, [2]string{"User-Agent", stdUA})
	case uaWrong:
		r.Hdr = append(r.Hdr, [2]string{"User-Agent", wrongUA})
	case uaTrunc:
		r.Hdr = append(r.Hdr, [2]string{"User-Agent", stdUA[:len(stdUA)/2]})
	case uaExt:
		r.Hdr = append(r.Hdr, [2]string{"User-Agent", stdUA + " Edg/120.0"})
	}
	for i, h := range cfg.Headers {
		n, v, ok := splitHeader(h)
		if !ok {
			continue
		}
		if kv, send := headerVariant(n, v, f.H[i]); send {
			r.Hdr = append(r.Hdr, kv)
		}
	}
	if f.XFF == 1 {
		r.Hdr = append(r.Hdr, [2]string{"X-Forwarded-For", xffValue})
	}
	r.Peer = peers[f.Peer]
	return r
}

// headerCombos enumerates the per-header variant product for a configuration.
func headerCombos(cfg Cfg) [][]int {
	combos := [][]int{{}}
	for _, h := range cfg.Headers {
		n, _, _ := splitHeader(h)
		vs := checkedVariants
		if ignoredHeader(n) {
			vs = ignoredVariants
		}
		var next [][]int
		for _, c := range combos {
			for _, v := range vs {
				nc := append(append([]int{}, c...), v)
				next = append(next, nc)
			}
		}
		combos = next
	}
	return combos
}

// forEachReqFeat enumerates the full request feature product of a configuration (the peer
// and the body kind are crossed in by the caller).
func forEachReqFeat(cfg Cfg, pv []pathVar, combos [][]int, f func(reqFeat)) {
	for m := range methods {
		for p := range pv {
			for ua := 0; ua < uaCount; ua++ {
				for xff := 0; xff < 2; xff++ {
					for _, hc := range combos {
						f(reqFeat{M: m, P: p, UA: ua, XFF: xff, H: hc})
					}
				}
			}
		}
	}
}

func productSize(cfg Cfg) int {
	return len(methods) * len(pathVariants(cfg)) * uaCount * 2 * len(headerCombos(cfg))
}
