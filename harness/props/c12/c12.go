package c12

import (
	"bytes"
	"encoding/json"
	"fmt"
	"os"
	"path/filepath"

	"verifh/lib"
	"verifh/observe"
)

func init() { lib.Register("C12", run) }

var bodyKinds = []string{"reg", "checkin", "junk"}

func run(c *lib.Ctx) {
	c.Rule("a case = (listener configuration, request, transport). Product phase: every point of {0/1/3 URIs} x {no / one / " +
		"three headers [ignored + ':' value + plain] / three headers [ignored + ': ' value + ':' value]} x {UA set/unset} x " +
		"{redirector flag} x {response headers none / four incl. ':' and ': ' values} x {POST/GET/PUT/HEAD} x {each configured URI exact / " +
		"strict prefix / plus suffix, '/', unlisted path} x {UA right/wrong/truncated/extended/missing} x {X-Forwarded-For yes/no} x " +
		"{each checked header right / other-case name / wrong / truncated / extended / missing; ignored header right/wrong/missing} " +
		"is sent in-process through the started listener's own engine (configurations are reached through ListenerStart for the first and " +
		"ListenerEdit for every further one). Every cell the reference predicate admits is sent with each of {peer IPv4, IPv6} x {valid " +
		"registration, check-in of a live agent, unknown-agent package}; over the cells it rejects peer and body kind rotate in the quick tier " +
		"and are crossed in as well in the thorough tier. Distinct counts POST cells and those non-POST cells that " +
		"would match the profile but for the method; TCP and edit phases draw (configuration, request) pairs from the same product with the " +
		"seeded generator. Only unambiguous requests are generated: values are equal or clearly different (never case-only variants of values), " +
		"query strings only where the configured URI has one or no URI is configured.")
	c.Assume("the recording proxy on HTTP.Teamserver sees every way a listener request can reach the agent layer (AgentExist, AgentAdd, ServiceAgentExist, AgentInstance)",
		"in-process requests are parsed from their wire form with net/http's request reader, i.e. exactly as the listener's own server parses them",
		"the decoy page is what a GET to the same listener receives; it must equal pkg/handlers/404.html with status 404",
		"a configuration edited at run time keeps its response headers, and its redirector flag is the profile's Demon.TrustXForwardedFor (the edit dialog has no such fields)",
		"when the redirector flag is set and no X-Forwarded-For header is sent the statement does not say what is recorded; that case is counted, not judged")

	if c.Replay != nil {
		replay(c)
		return
	}

	feats := allCfgFeats()
	cellIdx := 0 // global index over the whole product, identical in every shard
	total := 0
	for _, trust := range []bool{false, true} {
		e, err := newEnv(c, trust)
		if err != nil {
			c.Inconclusive("rig: " + err.Error())
			return
		}
		// ---- product phase: one listener per response-header set, reconfigured by ListenerEdit
		for resp := range respSets {
			var l *lst
			for _, f := range feats {
				if (f.Redir == 1) != trust || f.Resp != resp {
					continue
				}
				cfg := f.cfg()
				if l == nil {
					l, err = e.startListener(cfg, "127.0.0.1")
					if err != nil {
						c.Inconclusive("listener start: " + err.Error())
						return
					}
					if !checkDecoy(c, e, l) {
						return
					}
					c.Observe("configs-via-ListenerStart", 1)
				} else {
					e.editListener(l, cfg)
					c.Observe("configs-via-ListenerEdit", 1)
				}
				n := productConfig(c, e, l, f, cfg, &cellIdx, false)
				total += n
			}
		}
		// ---- run-time edits with one differential request per edit
		editPhase(c, e, c.N(3200, 64000)/2)
		// ---- real TCP, both loopbacks
		tcpPhase(c, e, c.N(1536, 15360)/2, 16)
		e.close()
	}
	c.Note("product_cells_total", total)
	c.Note("configurations", len(feats))
	c.Exhaustive(true)
}

// checkDecoy: the page learnt from a GET must be the shipped decoy.
func checkDecoy(c *lib.Ctx, e *env, l *lst) bool {
	repo := os.Getenv("VERIF_REPO")
	if repo == "" {
		repo = "/repo"
	}
	page, err := os.ReadFile(filepath.Join(repo, "teamserver/pkg/handlers/404.html"))
	if err != nil || len(page) == 0 {
		c.Inconclusive("cannot read the shipped decoy page: " + fmt.Sprint(err))
		return false
	}
	if l.decoy.Status != 404 || !bytes.Equal(l.decoy.Body, page) {
		k := &Case{Transport: "inproc", TrustXFF: e.trustXFF, Start: l.start, Req: Req{Method: "GET", Target: "/", Peer: peers[0], Body: "junk"}}
		c.Violation("decoy-get-wrong", fmt.Sprintf("a plain GET is answered with status %d and %d bytes instead of 404 + the decoy page", l.decoy.Status, len(l.decoy.Body)),
			witness{Kind: "case", Case: k, Expected: map[string]any{"status": 404, "bytes": len(page)}, Observed: map[string]any{"status": l.decoy.Status, "body": short(l.decoy.Body)}})
		return false
	}
	c.Observe("decoy-learnt", 1)
	return true
}

func caseFor(e *env, l *lst, rq Req, transport, labels string) *Case {
	k := &Case{Transport: transport, TrustXFF: e.trustXFF, Bind: l.bind, Start: l.start, Req: rq, Labels: labels}
	if l.edit != nil {
		cp := *l.edit
		k.Edit = &cp
		k.EditVia = l.editVia
	}
	return k
}

// productConfig runs the request product of one configuration on listener l (already
// configured). Pass 1: every cell the reference predicate rejects, between two state
// snapshots; pass 2: the cells it admits, with each body kind. all=true ignores sharding
// (replay of a batch witness).
func productConfig(c *lib.Ctx, e *env, l *lst, f cfgFeat, cfg Cfg, cellIdx *int, all bool) int {
	pv := pathVariants(cfg)
	combos := headerCombos(cfg)
	type adm struct {
		rf  reqFeat
		idx int
	}
	var admitted []adm
	before := e.snapshot()
	reachedInPass := 0
	n := 0
	forEachReqFeat(cfg, pv, combos, func(rf reqFeat) {
		idx := *cellIdx
		*cellIdx++
		n++
		if !all && !c.Mine(idx) {
			return
		}
		rq := rf.build(cfg, pv)
		ok, fails := admit(cfg, &rq)
		if ok {
			admitted = append(admitted, adm{rf, idx})
			return
		}
		// quick: peer and body kind rotate over the rejected cells; thorough: crossed in
		variants := [][2]int{{(idx / len(bodyKinds)) % len(peers), idx % len(bodyKinds)}}
		if c.Thorough() {
			variants = variants[:0]
			for p := range peers {
				for b := range bodyKinds {
					variants = append(variants, [2]int{p, b})
				}
			}
		}
		for _, v := range variants {
			rf.Peer = v[0]
			rq := rf.build(cfg, pv)
			rq.Body = bodyKinds[v[1]]
			lab := f.String() + "|" + rf.label(pv) + "|" + rq.Body
			k := caseFor(e, l, rq, "inproc", lab)
			o := e.eval(l, k)
			if o.reached {
				reachedInPass++
			}
			if rq.Method == "POST" || (len(fails) == 1 && fails[0].Check == "method") {
				c.Distinct(lab)
			}
			c.SampleSome(20011, func() any { return map[string]any{"case": k, "oracle_admit": false, "reached_agent_layer": o.reached} })
		}
	})
	after := e.snapshot()
	c.Observe("rejected-batches-snapshotted", 1)
	if before.JSON() != after.JSON() && reachedInPass == 0 {
		c.Violation("state-changed-by-rejected-requests",
			"teamserver state differs before/after a batch of requests that were all answered as rejected and never reached the agent layer",
			witness{Kind: "batch", Case: caseFor(e, l, Req{Method: "GET", Target: "/", Body: "junk"}, "inproc", f.String()),
				Observed: observe.Diff(before, after)})
	}
	for _, a := range admitted {
		for p := range peers {
			for _, bk := range bodyKinds {
				a.rf.Peer = p
				rq := a.rf.build(cfg, pv)
				rq.Body = bk
				lab := f.String() + "|" + a.rf.label(pv) + "|" + bk
				k := caseFor(e, l, rq, "inproc", lab)
				o := e.eval(l, k)
				c.Distinct(lab)
				c.SampleSome(997, func() any { return map[string]any{"case": k, "oracle_admit": true, "reached_agent_layer": o.reached} })
			}
		}
	}
	return n
}

// randomFeat draws a configuration feature vector (redirector flag fixed by the rig).
func randomFeat(c *lib.Ctx, trust bool) cfgFeat {
	f := cfgFeat{U: c.Rng.Intn(len(uriSets)), H: c.Rng.Intn(len(headerSets)), UA: c.Rng.Intn(2), Resp: c.Rng.Intn(len(respSets))}
	if trust {
		f.Redir = 1
	}
	return f
}

// randomReq draws a request for cfg; matching=true starts from the all-right point and
// keeps it (method POST, listed URI, right values or other-case names).
func randomReq(c *lib.Ctx, cfg Cfg, matching bool) (Req, string) {
	pv := pathVariants(cfg)
	rf := reqFeat{M: c.Rng.Intn(len(methods)), P: c.Rng.Intn(len(pv)), UA: c.Rng.Intn(uaCount), XFF: c.Rng.Intn(2), Peer: c.Rng.Intn(len(peers))}
	if c.Rng.Intn(3) > 0 {
		rf.M = 0
	}
	for _, h := range cfg.Headers {
		n, _, _ := splitHeader(h)
		vs := checkedVariants
		if ignoredHeader(n) {
			vs = ignoredVariants
		}
		rf.H = append(rf.H, vs[c.Rng.Intn(len(vs))])
	}
	if matching {
		rf.M = 0
		rf.UA = uaRight
		if len(cfg.Uris) > 0 {
			rf.P = 3 * c.Rng.Intn(len(cfg.Uris)) // the "in<i>" variant
		}
		for i, h := range cfg.Headers {
			n, _, _ := splitHeader(h)
			if !ignoredHeader(n) {
				rf.H[i] = []int{hvRight, hvOtherCase}[c.Rng.Intn(2)]
			}
		}
	} else if c.Rng.Intn(2) == 0 {
		// near miss: all right except one feature
		rf.M, rf.UA = 0, uaRight
		if len(cfg.Uris) > 0 {
			rf.P = 3 * c.Rng.Intn(len(cfg.Uris))
		}
		for i := range rf.H {
			rf.H[i] = hvRight
		}
		switch c.Rng.Intn(4) {
		case 0:
			rf.M = 1 + c.Rng.Intn(len(methods)-1)
		case 1:
			rf.P = c.Rng.Intn(len(pv))
		case 2:
			rf.UA = c.Rng.Intn(uaCount)
		default:
			if len(rf.H) > 0 {
				i := c.Rng.Intn(len(rf.H))
				n, _, _ := splitHeader(cfg.Headers[i])
				vs := checkedVariants
				if ignoredHeader(n) {
					vs = ignoredVariants
				}
				rf.H[i] = vs[c.Rng.Intn(len(vs))]
			}
		}
	}
	rq := rf.build(cfg, pv)
	rq.Body = bodyKinds[c.Rng.Intn(len(bodyKinds))]
	if c.Rng.Intn(2) == 0 {
		rq.Body = "reg"
	}
	return rq, rf.label(pv)
}

// editPhase: a chain of ListenerEdit calls on one listener; after every edit one request
// that the previous and the new configuration judge differently where such a request
// exists among a few draws, judged by the NEW configuration.
func editPhase(c *lib.Ctx, e *env, steps int) {
	if steps <= 0 {
		return
	}
	f0 := randomFeat(c, e.trustXFF)
	l, err := e.startListener(f0.cfg(), "127.0.0.1")
	if err != nil {
		c.Inconclusive("listener start: " + err.Error())
		return
	}
	if !checkDecoy(c, e, l) {
		return
	}
	prev := f0.cfg()
	for i := 0; i < steps; i++ {
		f := randomFeat(c, e.trustXFF)
		f.Resp = f0.Resp // an edit cannot change the response headers
		cfg := f.cfg()
		e.editListener(l, cfg)
		var rq Req
		var lab string
		differential := false
		for try := 0; try < 6; try++ {
			src := cfg
			if try%2 == 1 {
				src = prev
			}
			rq, lab = randomReq(c, src, true)
			a1, _ := admit(prev, &rq)
			a2, _ := admit(cfg, &rq)
			if a1 != a2 {
				differential = true
				break
			}
		}
		if differential {
			c.Observe("edit-steps-differential", 1)
		}
		lab = "edit|" + f.String() + "|" + lab + "|" + rq.Body
		k := caseFor(e, l, rq, "inproc", lab)
		e.eval(l, k)
		c.Distinct(lab)
		c.Observe("edit-steps", 1)
		prev = cfg
	}
}

// tcpPhase: fresh listeners (every configuration dimension goes through ListenerStart),
// requests over real TCP from 127.0.0.1 and ::1, one run-time edit half way.
func tcpPhase(c *lib.Ctx, e *env, requests, perListener int) {
	binds := []string{"0.0.0.0", "[::1]", "127.0.0.1", "[::]"}
	lost := 0
	for done, li := 0, 0; done < requests; li++ {
		f := randomFeat(c, e.trustXFF)
		cfg := f.cfg()
		bind := binds[(li+c.Shard)%len(binds)]
		l, err := e.startListener(cfg, bind)
		if err != nil {
			c.Inconclusive("listener start: " + err.Error())
			return
		}
		var transports []string
		switch bind {
		case "127.0.0.1":
			transports = []string{"tcp4"}
		case "[::1]":
			transports = []string{"tcp6"}
		default:
			transports = []string{"tcp4", "tcp6"}
		}
		up := true
		for _, t := range transports {
			addr := "127.0.0.1:" + l.port
			if t == "tcp6" {
				addr = "[::1]:" + l.port
			}
			if !waitTCP(addr) {
				up = false
			}
		}
		if !up {
			// the port picked a moment ago was taken by another process in between (or the
			// bind failed): nothing can be learnt from this listener, take another one
			c.Observe("tcp-listener-port-lost", 1)
			lost++
			if lost > 8 {
				c.Inconclusive(fmt.Sprintf("listener bound to %s:%s does not accept connections (9th failure in this worker)", bind, l.port))
				return
			}
			continue
		}
		if !checkDecoy(c, e, l) {
			return
		}
		c.Observe("tcp-listeners:"+bind, 1)
		for j := 0; j < perListener && done < requests; j++ {
			if j == perListener/2 {
				nf := randomFeat(c, e.trustXFF)
				nf.Resp = f.Resp
				f = nf
				cfg = nf.cfg()
				e.editListener(l, cfg)
				c.Observe("tcp-edits", 1)
			}
			rq, lab := randomReq(c, cfg, j%2 == 0)
			rq.Peer = "" // the peer is whatever address the connection really comes from
			t := transports[c.Rng.Intn(len(transports))]
			lab = t + "|" + f.String() + "|" + lab + "|" + rq.Body
			k := caseFor(e, l, rq, t, lab)
			e.eval(l, k)
			c.Distinct(lab)
			c.SampleSome(53, func() any { return map[string]any{"case": k} })
			done++
		}
	}
}

func replay(c *lib.Ctx) {
	var w witness
	if err := json.Unmarshal(c.Replay, &w); err != nil || w.Case == nil {
		c.Inconclusive("replay: witness is not a C12 case")
		return
	}
	k := w.Case
	e, err := newEnv(c, k.TrustXFF)
	if err != nil {
		c.Inconclusive("rig: " + err.Error())
		return
	}
	defer e.close()
	bind := k.Bind
	if bind == "" {
		bind = "127.0.0.1"
	}
	l, err := e.startListener(k.Start, bind)
	if err != nil {
		c.Inconclusive("listener start: " + err.Error())
		return
	}
	if k.Transport != "inproc" {
		addr := "127.0.0.1:" + l.port
		if k.Transport == "tcp6" {
			addr = "[::1]:" + l.port
		}
		if !waitTCP(addr) {
			c.Inconclusive("listener does not accept connections on " + addr)
			return
		}
	}
	if !checkDecoy(c, e, l) {
		return
	}
	if k.Edit != nil {
		if k.EditVia == "operator" {
			l.edits = 1 // the next edit takes the operator's path
		}
		e.editListener(l, *k.Edit)
	}
	if w.Kind == "batch" {
		idx := 0
		cfg := k.Effective()
		productConfig(c, e, l, cfgFeat{}, cfg, &idx, true)
		return
	}
	e.eval(l, k)
}
