package c12

// The observation side: a rig with real listeners, a recording proxy in front of the agent
// layer, in-process and real-TCP transports, and the per-request judgement.

import (
	"Havoc/pkg/packager"
	"bufio"
	"bytes"
	"encoding/binary"
	"fmt"
	"net"
	"net/http"
	"net/http/httptest"
	"os"
	"path/filepath"
	"runtime/debug"
	"strconv"
	"strings"
	"sync"
	"sync/atomic"
	"time"

	"Havoc/pkg/agent"
	"Havoc/pkg/handlers"

	"verifh/demon"
	"verifh/lib"
	"verifh/observe"
	"verifh/rig"
)

// recorder sits between the listener and the real teamserver and counts the calls by
// which a request "reaches the agent protocol".
type recorder struct {
	agent.TeamServer
	exist, add, svc, inst atomic.Int64
}

func (p *recorder) AgentExist(id int) bool {
	p.exist.Add(1)
	return p.TeamServer.AgentExist(id)
}
func (p *recorder) AgentAdd(a *agent.Agent) []*agent.Agent {
	p.add.Add(1)
	return p.TeamServer.AgentAdd(a)
}
func (p *recorder) ServiceAgentExist(m int) bool {
	p.svc.Add(1)
	return p.TeamServer.ServiceAgentExist(m)
}
func (p *recorder) AgentInstance(id int) *agent.Agent {
	p.inst.Add(1)
	return p.TeamServer.AgentInstance(id)
}
func (p *recorder) total() int64 {
	return p.exist.Load() + p.add.Load() + p.svc.Load() + p.inst.Load()
}

type decoy struct {
	Status int
	Body   []byte
	Hdr    map[string]string
}

// lst is one started listener with its recorder and learnt decoy.
type lst struct {
	h       *handlers.HTTP
	rec     *recorder
	name    string
	port    string
	bind    string
	start   Cfg
	edit    *Cfg
	edits   int // run-time edits so far
	editVia string
	decoy   decoy
}

type env struct {
	c        *lib.Ctx
	r        *rig.Rig
	trustXFF bool
	nextID   uint32
	nameSeq  int
	resident struct {
		id      uint32
		key, iv []byte
	}
	plain *lst
	mu    sync.Mutex
}

var lstSeq, rigSeq atomic.Int64

func newEnv(c *lib.Ctx, trustXFF bool) (*env, error) {
	r, err := rig.New(rig.Options{TrustXFF: trustXFF})
	if err != nil {
		return nil, err
	}
	e := &env{c: c, r: r, trustXFF: trustXFF}
	// agent ids: disjoint per shard, below 0x80000000 (larger ids are another property's business)
	e.nextID = 0x01000000 + uint32(c.Shard)*0x04000000 + uint32(rigSeq.Add(1))*0x01000000
	// a listener without any filter, used to register the resident agent for check-ins
	pl, err := e.startListener(Cfg{Redir: trustXFF}, "127.0.0.1")
	if err != nil {
		return nil, err
	}
	e.plain = pl
	id := e.freshID()
	key, iv := keyFor(id)
	m := metaFor(id)
	resp := serveInproc(pl.h.GinEngine, rawRequest(&Req{Method: "POST", Target: "/"}, "127.0.0.1:1", demon.Register(id, key, iv, m)), "127.0.0.1:40000", "POST")
	if resp.Status != 200 || e.r.TS.AgentInstance(int(id)) == nil {
		return nil, fmt.Errorf("resident agent registration through an unfiltered listener failed: status %d panic %v", resp.Status, resp.Panic)
	}
	e.resident.id, e.resident.key, e.resident.iv = id, key, iv
	return e, nil
}

func (e *env) close() { e.r.Close() }

func (e *env) freshID() uint32 {
	e.nextID++
	return e.nextID
}

func keyFor(id uint32) (key, iv []byte) {
	key = make([]byte, 32)
	iv = make([]byte, 16)
	for i := range key {
		key[i] = byte(id>>uint(8*(i%4))) ^ byte(0x5a+i)
	}
	for i := range iv {
		iv[i] = byte(id>>uint(8*(i%4))) ^ byte(0xc3+i)
	}
	key[0] |= 1 // never the all-zero key (which means "unencrypted" to the server)
	return
}

func metaFor(id uint32) *demon.Meta {
	return &demon.Meta{AgentID: id, Hostname: "WS-" + strconv.FormatUint(uint64(id), 16), Username: "user", Domain: "CORP",
		InternalIP: "10.0.0.5", ProcessPath: "C:\\Windows\\System32\\svchost.exe", PID: 4120, TID: 4124, PPID: 700, Arch: 2,
		Elevated: 0, BaseAddr: 0x7ff600000000, OS: [5]uint32{10, 0, 1, 0, 19045}, OSArch: 9, Sleep: 5, Jitter: 10}
}

func toHTTPConfig(name string, cfg Cfg) handlers.HTTPConfig {
	hc := handlers.HTTPConfig{Name: name, UserAgent: cfg.UA, BehindRedir: cfg.Redir}
	hc.Headers = append([]string{}, cfg.Headers...)
	hc.Uris = append([]string{}, cfg.Uris...)
	hc.Response.Headers = append([]string{}, cfg.Resp...)
	return hc
}

// startListener starts a real listener through ListenerStart, puts the recorder in front of
// the teamserver and learns the decoy from a GET.
func (e *env) startListener(cfg Cfg, bind string) (*lst, error) {
	n := lstSeq.Add(1)
	name := fmt.Sprintf("c12-%d-%d", e.c.Shard, n)
	var h *handlers.HTTP
	var err error
	var port string
	for try := 0; try < 3; try++ {
		hc := toHTTPConfig(name, cfg)
		hc.HostBind = bind
		port = strconv.Itoa(pickPort())
		hc.PortBind = port
		h, err = e.r.StartHTTP(hc)
		if err == nil {
			break
		}
		name = fmt.Sprintf("c12-%d-%d", e.c.Shard, lstSeq.Add(1))
	}
	if err != nil {
		return nil, err
	}
	l := &lst{h: h, name: h.Config.Name, port: port, bind: bind, start: cfg}
	l.rec = &recorder{TeamServer: e.r.TS}
	h.Teamserver = l.rec
	g := serveInproc(h.GinEngine, rawRequest(&Req{Method: "GET", Target: "/"}, "127.0.0.1:"+port, nil), "127.0.0.1:40000", "GET")
	l.decoy = decoy{Status: g.Status, Body: g.Body, Hdr: map[string]string{}}
	for _, k := range []string{"Server", "Content-Type", "X-Havoc"} {
		l.decoy.Hdr[k] = g.Header.Get(k)
	}
	return l, nil
}

// editListener reconfigures the listener through the real ListenerEdit. The configuration
// handed over keeps the fields an edit cannot change (response headers; the redirector
// flag is always the profile's), so "the new configuration" is unambiguous.
func (e *env) editListener(l *lst, cfg Cfg) {
	// an edit always meets a listener that has already served a request matching its current
	// configuration (whatever a listener derives from its configuration on first use exists
	// by then); the same in a replay
	cur := l.start
	if l.edit != nil {
		cur = *l.edit
	}
	rq, _ := randomReq(e.c, cur, true)
	rq.Body = "junk"
	id := e.freshID()
	key, iv := keyFor(id)
	serveInproc(l.h.GinEngine, rawRequest(&rq, "127.0.0.1:"+l.port, demon.Checkin(id, key, iv)), "127.0.0.1:40001", rq.Method)
	e.c.Observe("warm-up-requests-before-an-edit", 1)
	cp := cfg
	l.edit = &cp
	// every second edit arrives as an operator's Listener/Edit package (lists joined by
	// ", " as the client sends them; it has no field for the redirector flag), unless an
	// item contains ", " itself, which that form cannot carry
	l.edits++
	l.editVia = ""
	if l.edits%2 == 0 && operatorForm(cfg) {
		l.editVia = "operator"
		e.c.Observe("edits-via-operator-package", 1)
		e.r.TS.DispatchEvent(packager.Package{
			Head: packager.Head{Event: packager.Type.Listener.Type, User: "alice", OneTime: "true"},
			Body: packager.Body{SubEvent: packager.Type.Listener.Edit, Info: map[string]any{
				"Name": l.name, "Protocol": handlers.AGENT_HTTP, "HostBind": l.bind, "Hosts": "127.0.0.1", "HostRotation": "round-robin",
				"PortBind": l.port, "PortConn": "", "HostHeader": "", "UserAgent": cfg.UA, "Secure": "false", "Proxy Enabled": "false",
				"Headers": strings.Join(cfg.Headers, ", "), "Uris": strings.Join(cfg.Uris, ", "),
			}}})
		return
	}
	e.r.TS.ListenerEdit(handlers.LISTENER_HTTP, toHTTPConfig(l.name, cfg))
}

// operatorForm: the configuration can be written as an operator package.
func operatorForm(cfg Cfg) bool {
	for _, l := range [][]string{cfg.Headers, cfg.Uris} {
		for _, it := range l {
			if it == "" || strings.Contains(it, ", ") {
				return false
			}
		}
	}
	return true
}

// ---------------------------------------------------------------------------------------
// transports

// rawRequest renders the request exactly as it goes over the wire.
func rawRequest(r *Req, host string, body []byte) []byte {
	var b bytes.Buffer
	fmt.Fprintf(&b, "%s %s HTTP/1.1\r\nHost: %s\r\n", r.Method, r.Target, host)
	for _, kv := range r.Hdr {
		fmt.Fprintf(&b, "%s: %s\r\n", kv[0], kv[1])
	}
	fmt.Fprintf(&b, "Content-Length: %d\r\n\r\n", len(body))
	b.Write(body)
	return b.Bytes()
}

type answer struct {
	Status int
	Body   []byte
	Header http.Header
	Panic  any
	Stack  string
	Err    string
	Local  string // TCP: the client's own address = the peer the server sees
}

// serveInproc parses the wire form with net/http's own request reader (as the server
// does, so header names are canonicalised the same way) and hands it to the engine.
func serveInproc(eng http.Handler, raw []byte, peer, method string) (a answer) {
	req, err := http.ReadRequest(bufio.NewReader(bytes.NewReader(raw)))
	if err != nil {
		a.Err = "harness: request does not parse: " + err.Error()
		return
	}
	req.RemoteAddr = peer
	w := httptest.NewRecorder()
	func() {
		defer func() {
			if p := recover(); p != nil {
				a.Panic = p
				a.Stack = string(debug.Stack())
			}
		}()
		eng.ServeHTTP(w, req)
	}()
	a.Status = w.Code
	a.Body = w.Body.Bytes()
	a.Header = w.Header()
	return
}

func serveTCP(addr string, raw []byte, method string) (a answer) {
	conn, err := net.DialTimeout("tcp", addr, 5*time.Second)
	if err != nil {
		a.Err = "dial: " + err.Error()
		return
	}
	defer conn.Close()
	a.Local = conn.LocalAddr().String()
	conn.SetDeadline(time.Now().Add(30 * time.Second))
	if _, err := conn.Write(raw); err != nil {
		a.Err = "write: " + err.Error()
		return
	}
	resp, err := http.ReadResponse(bufio.NewReader(conn), &http.Request{Method: method})
	if err != nil {
		a.Err = "read: " + err.Error()
		return
	}
	defer resp.Body.Close()
	var buf bytes.Buffer
	if _, err := buf.ReadFrom(resp.Body); err != nil {
		a.Err = "read body: " + err.Error()
		return
	}
	a.Status = resp.StatusCode
	a.Body = buf.Bytes()
	a.Header = resp.Header
	return
}

// ---------------------------------------------------------------------------------------
// judgement of one request

type outcome struct {
	admitOracle bool
	reached     bool
	viol        []string // signatures raised
}

type witness struct {
	Kind     string `json:"kind"` // "case" | "batch"
	Case     *Case  `json:"case,omitempty"`
	Expected any    `json:"expected,omitempty"`
	Observed any    `json:"observed,omitempty"`
}

func short(b []byte) string {
	if len(b) > 96 {
		return fmt.Sprintf("%q…(%d bytes)", b[:96], len(b))
	}
	return fmt.Sprintf("%q", b)
}

// eval sends the request of k to listener l (already configured as k says) and judges it.
func (e *env) eval(l *lst, k *Case) outcome {
	c := e.c
	cfg := k.Effective()
	rq := &k.Req
	var out outcome

	// body
	var body []byte
	var id uint32
	var key, iv []byte
	switch rq.Body {
	case "reg":
		id = e.freshID()
		key, iv = keyFor(id)
		body = demon.Register(id, key, iv, metaFor(id))
	case "checkin":
		id, key, iv = e.resident.id, e.resident.key, e.resident.iv
		body = demon.Checkin(id, key, iv)
	default: // junk: well-formed package of an unknown agent that is not a registration
		id = e.freshID()
		key, iv = keyFor(id)
		body = demon.Checkin(id, key, iv)
	}
	raw := rawRequest(rq, "127.0.0.1:"+l.port, body)

	// survives a process-fatal error: the labels (configuration and request features) and
	// the request exactly as sent
	c.Cur("c12-case", append([]byte(k.Transport+" "+k.Labels+"\n"), raw...))
	c.Eval()

	admitO, fails := admit(cfg, rq)
	out.admitOracle = admitO

	callsBefore := l.rec.total()
	addBefore := l.rec.add.Load()
	sessBefore := len(e.r.TS.Agents.Agents)

	var a answer
	peerSeen := rq.Peer
	switch k.Transport {
	case "inproc":
		a = serveInproc(l.h.GinEngine, raw, rq.Peer, rq.Method)
	case "tcp4":
		a = serveTCP("127.0.0.1:"+l.port, raw, rq.Method)
		peerSeen = a.Local
	case "tcp6":
		a = serveTCP("[::1]:"+l.port, raw, rq.Method)
		peerSeen = a.Local
	}
	if a.Err != "" {
		c.Inconclusive(fmt.Sprintf("transport %s: %s", k.Transport, a.Err))
		return out
	}
	c.Observe("requests:"+k.Transport, 1)

	calls := l.rec.total() - callsBefore
	added := l.rec.add.Load() - addBefore
	sessAfter := len(e.r.TS.Agents.Agents)
	reached := calls > 0 || sessAfter != sessBefore
	out.reached = reached

	report := func(sig, what string, expected, observed any) {
		out.viol = append(out.viol, sig)
		kc := *k
		c.Violation(sig, what, witness{Kind: "case", Case: &kc, Expected: expected, Observed: observed})
	}

	if a.Panic != nil {
		report(lib.PanicSig(a.Panic, a.Stack), fmt.Sprintf("listener handler panicked: %v", a.Panic), "no panic", a.Stack)
		return out
	}

	var obsExtra map[string]any
	mkObs := func() map[string]any {
		m := map[string]any{"status": a.Status, "body": short(a.Body), "agent_layer_calls": calls, "agent_add_calls": added,
			"sessions_before": sessBefore, "sessions_after": sessAfter, "header": a.Header}
		for k, v := range obsExtra {
			m[k] = v
		}
		return m
	}

	switch {
	case !admitO && reached:
		c.Observe("oracle-reject/code-admit", 1)
		sig := "admitted-despite:" + failureClasses(fails)
		what := fmt.Sprintf("%s %s fails the profile's %s check(s) but reached the agent layer", rq.Method, rq.Target, failureClasses(fails))
		if onlyColonSpaceCut(fails) {
			sig = "request-header-value-split-at-colon-space"
			what = "configured request header value containing \": \" : a request carrying only the part before \": \" is admitted (and the full value is refused)"
		}
		report(sig, what, map[string]any{"admit": false, "failed_checks": fails}, mkObs())
		return out

	case admitO && !reached:
		c.Observe("oracle-admit/code-reject", 1)
		sig := "rejected-despite-match"
		what := fmt.Sprintf("%s %s matches the whole profile but never reached the agent layer (status %d)", rq.Method, rq.Target, a.Status)
		if hasColonSpaceHeader(cfg) {
			sig = "request-header-value-split-at-colon-space"
			what = "configured request header value containing \": \" : a request carrying only the part before \": \" is admitted (and the full value is refused)"
		}
		report(sig, what, map[string]any{"admit": true}, mkObs())
		return out

	case !admitO:
		// rejected as it should be: decoy 404, nothing else
		c.Observe("rejected", 1)
		c.Observe("rejected-by:"+failureClasses(fails), 1)
		if a.Status != 404 {
			report("rejected-not-404", fmt.Sprintf("rejected %s request answered with status %d instead of the decoy 404", rq.Method, a.Status), 404, mkObs())
			return out
		}
		if why := e.decoyMismatch(l, rq, &a); why != "" {
			sig := "decoy-mismatch"
			if rq.Method != "GET" && rq.Method != "POST" {
				sig = "decoy-mismatch-unrouted-method"
			}
			report(sig, fmt.Sprintf("rejected %s request gets a 404 that is not the decoy page: %s", rq.Method, why),
				map[string]any{"status": l.decoy.Status, "body": short(l.decoy.Body), "header": l.decoy.Hdr}, mkObs())
		}
		return out
	}

	// admitted by both
	c.Observe("admitted", 1)
	c.Observe("admitted:"+rq.Body, 1)
	switch rq.Body {
	case "reg":
		want := make([]byte, 4)
		binary.LittleEndian.PutUint32(want, id)
		want = demon.CTR(key, iv, want)
		ag := e.r.TS.AgentInstance(int(id))
		if a.Status != 200 || !bytes.Equal(a.Body, want) {
			report("admitted-register-bad-reply", fmt.Sprintf("admitted valid registration answered with status %d / %d bytes", a.Status, len(a.Body)),
				map[string]any{"status": 200, "body": short(want)}, mkObs())
		} else if ag == nil || sessAfter != sessBefore+1 {
			report("admitted-register-no-session", "admitted valid registration answered 200 but no (single) new session exists",
				map[string]any{"sessions_after": sessBefore + 1}, mkObs())
		}
		if ag != nil {
			if want, judged := expectedExternalIP(cfg, rq, peerSeen); judged {
				c.Observe("external-ip-judged", 1)
				got := ag.Info.ExternalIP
				if got != want {
					sig := "external-ip-wrong"
					what := fmt.Sprintf("sender address recorded for the new session is %q, expected %q", got, want)
					xff, hasXFF := rq.reqHeader("X-Forwarded-For")
					host, _, _ := net.SplitHostPort(peerSeen)
					switch {
					case !cfg.Redir && strings.Contains(host, ":") && got == "[":
						sig = "external-ip-ipv6-peer"
						what = "IPv6 peer, no redirector : the sender address recorded for the new session is \"[\" instead of the peer address"
					case !cfg.Redir && hasXFF && got == xff:
						sig = "external-ip-forwarded-for-trusted-without-redirector"
					case cfg.Redir && got == host:
						sig = "external-ip-forwarded-for-ignored-behind-redirector"
					}
					obsExtra = map[string]any{"external_ip": got, "peer": peerSeen}
					report(sig, what, map[string]any{"external_ip": want}, mkObs())
				} else {
					c.Observe("external-ip-ok", 1)
				}
			} else {
				c.Observe("external-ip-not-judged(redirector flag, no forwarded-for)", 1)
			}
		}
	case "checkin":
		ts, ok := demon.ParseTasks(a.Body, key, iv)
		if a.Status != 200 || !ok || len(ts) != 1 || ts[0].Cmd != demon.CmdNoJob {
			report("admitted-checkin-bad-reply", fmt.Sprintf("admitted check-in of a live agent answered with status %d / %d bytes instead of 200 + NOJOB", a.Status, len(a.Body)),
				map[string]any{"status": 200, "tasks": "one COMMAND_NOJOB"}, mkObs())
		}
	default:
		if a.Status != 404 || sessAfter != sessBefore {
			report("admitted-junk-bad-reply", fmt.Sprintf("non-registration package of an unknown agent answered with status %d, sessions %d -> %d", a.Status, sessBefore, sessAfter),
				map[string]any{"status": 404, "sessions_after": sessBefore}, mkObs())
		}
	}
	// every answer to an admitted request carries every configured response header, in full
	for _, rh := range cfg.Resp {
		n, v, ok := splitHeader(rh)
		if !ok {
			continue
		}
		c.Observe("response-headers-checked", 1)
		vals := a.Header.Values(n)
		if len(vals) == 0 {
			report("response-header-missing", fmt.Sprintf("answer to an admitted %s request lacks the configured response header %q", rq.Body, n),
				map[string]any{"header": rh}, mkObs())
			continue
		}
		got := strings.TrimSpace(vals[0])
		if got == strings.TrimSpace(v) {
			c.Observe("response-header-ok", 1)
			continue
		}
		sig := "response-header-wrong-value"
		what := fmt.Sprintf("configured response header %q arrives as %q", rh, got)
		if i := strings.IndexByte(v, ':'); i >= 0 && got == strings.TrimSpace(v[:i]) {
			sig = "response-header-truncated-at-colon"
			what = "configured response header value containing ':' : the answer to an admitted request carries only the part before the first ':'"
		}
		report(sig, what, map[string]any{"header": rh}, map[string]any{"name": n, "value": got, "status": a.Status})
	}
	return out
}

// decoyMismatch compares an answer with the decoy learnt from a GET to the same listener.
func (e *env) decoyMismatch(l *lst, rq *Req, a *answer) string {
	if rq.Method != "HEAD" && !bytes.Equal(a.Body, l.decoy.Body) {
		return fmt.Sprintf("body %s differs from the page a GET receives (%d bytes)", short(a.Body), len(l.decoy.Body))
	}
	for k, v := range l.decoy.Hdr {
		if got := a.Header.Get(k); got != v {
			return fmt.Sprintf("header %s is %q, a GET receives %q", k, got, v)
		}
	}
	return ""
}

func (e *env) snapshot() observe.State {
	return observe.Snapshot(e.r.TS, filepath.Join(e.r.Dir, "data", "teamserver.db"), filepath.Join(e.r.Dir, "data", "loot"))
}

// waitTCP: the port accepts connections AND every listening socket on it is this process's.
func waitTCP(addr string) bool {
	if !rig.WaitTCP(addr, 5*time.Second) {
		return false
	}
	_, port, err := net.SplitHostPort(addr)
	if err != nil {
		return false
	}
	ours, foreign := portOwnership(port)
	return ours > 0 && foreign == 0
}

// portOwnership reads the kernel's socket tables: how many listening TCP sockets on that
// port belong to this process and how many to others. Several workers (and other checks)
// run on the same machine; a request answered by somebody else's listener says nothing
// about the code under test.
func portOwnership(port string) (ours, foreign int) {
	p, err := strconv.Atoi(port)
	if err != nil {
		return 0, 0
	}
	mine := map[string]bool{}
	if ents, err := os.ReadDir("/proc/self/fd"); err == nil {
		for _, en := range ents {
			if t, err := os.Readlink("/proc/self/fd/" + en.Name()); err == nil && strings.HasPrefix(t, "socket:[") {
				mine[strings.TrimSuffix(strings.TrimPrefix(t, "socket:["), "]")] = true
			}
		}
	}
	for _, tbl := range []string{"/proc/net/tcp", "/proc/net/tcp6"} {
		b, err := os.ReadFile(tbl)
		if err != nil {
			continue
		}
		for _, ln := range strings.Split(string(b), "\n")[1:] {
			f := strings.Fields(ln)
			if len(f) < 10 || f[3] != "0A" {
				continue
			}
			i := strings.LastIndexByte(f[1], ':')
			if i < 0 {
				continue
			}
			lp, err := strconv.ParseUint(f[1][i+1:], 16, 32)
			if err != nil || int(lp) != p {
				continue
			}
			if mine[f[9]] {
				ours++
			} else {
				foreign++
			}
		}
	}
	return
}

var portSeq atomic.Int64

// pickPort returns a port that is free on every local address right now. It is taken from
// below the ephemeral range so that no outgoing connection of another process on this
// (shared, busy) machine can grab it between the probe and the listener's bind, spread by
// process id so that parallel workers do not collide; rig.FreePort is the fallback.
func pickPort() int {
	for i := 0; i < 64; i++ {
		p := 10000 + int((int64(os.Getpid())*7919+portSeq.Add(1)*104729)%22000)
		l, err := net.Listen("tcp", ":"+strconv.Itoa(p))
		if err != nil {
			continue
		}
		l.Close()
		return p
	}
	return rig.FreePort()
}
