// Package c08 holds the workload and monitor for property C08 (see /verif/DESIGN.md §3).
package c08
