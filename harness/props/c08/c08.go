// Package c08: "Tasks and callbacks for pivot agents are routed to the right session".
//
// Chains are built through the protocol (root registers over HTTP, every child through its
// parent's SMB_CONNECT callback, deeper ones relayed). Downward: a task for any agent of the
// chain must appear in the root's check-in response wrapped once per hop; the reference
// Demon unwraps hop by hop with each hop's own key and the SmbRecv id check, and the last
// frame must be the original task under the target's key. Upward: a relayed callback is
// attributed to, decrypted with the key of, and gated by the outstanding ids of the agent
// named in its inner header.
package c08

import (
	"Havoc/pkg/agent"
	"bytes"
	"encoding/binary"
	"encoding/json"
	"fmt"
	"math/rand"
	"strings"

	"Havoc/pkg/handlers"

	"verifh/demon"
	"verifh/lib"
	"verifh/rig"
)

func init() { lib.Register("C08", run) }

type chainCase struct {
	IDs     []uint32 `json:"ids"` // root first
	ZeroKey []bool   `json:"zero_key"`
	Seed    int64    `json:"seed"`
	Tasks   []taskOp `json:"tasks"`
	// TaskOnAdd: an operator tasks every pivot agent at the moment its session appears
	// (inside the teamserver's AgentAdd call for it)
	TaskOnAdd bool `json:"task_on_add,omitempty"`
	// RefusedConnect: before the tasks, the deepest agent reports an SMB connect that names
	// its own parent (an ancestor that has a parent itself): refused, and nothing changes
	RefusedConnect bool `json:"refused_connect,omitempty"`
}

type taskOp struct {
	Target int    `json:"target"` // index into the chain
	Kind   string `json:"kind"`   // sleep | cd | checkin | kill
	A      uint32 `json:"a,omitempty"`
	B      uint32 `json:"b,omitempty"`
	S      string `json:"s,omitempty"`
}

var idChoices = []uint32{1, 2, 0x7fffffff, 0x80000000, 0x80000001, 0xfffffffe, 0xffffffff, 0x00c0ffee, 0x13572468, 0x5a5a5a5a}

func idClass(id uint32) string {
	if id >= 0x80000000 {
		return "id>=2^31"
	}
	return "id<2^31"
}

// expectedBody is what the Demon's handler for the command reads (Command.c).
func expectedBody(t taskOp) (cmd uint32, body []byte, extra map[string]any) {
	le := func(v uint32) []byte { b := make([]byte, 4); binary.LittleEndian.PutUint32(b, v); return b }
	switch t.Kind {
	case "sleep":
		return 11, append(le(t.A), le(t.B)...), map[string]any{"Arguments": fmt.Sprintf("%d;%d", t.A, t.B)}
	case "cd":
		w := append(demon.UTF16LE(t.S), 0, 0)
		return 15, append(append(le(4), le(uint32(len(w)))...), w...), map[string]any{"SubCommand": "cd", "Arguments": t.S}
	case "kill":
		return 0x1010, append(le(7), le(t.A)...), map[string]any{"ProcCommand": "7", "Args": fmt.Sprint(t.A)}
	default:
		return 100, nil, nil
	}
}

type world struct {
	r    *rig.Rig
	h    *handlers.HTTP
	rec  *rig.Recorder
	sims []*rig.Sim
	req  uint32
}

// up wraps a check-in of chain member i through all its ancestors.
func (w *world) up(i int, cbs ...demon.Callback) []byte {
	pkg := demon.Checkin(w.sims[i].ID, w.sims[i].Key, w.sims[i].IV, cbs...)
	for k := i - 1; k >= 0; k-- {
		pkg = demon.Checkin(w.sims[k].ID, w.sims[k].Key, w.sims[k].IV, demon.PivotWrap(pkg))
	}
	return pkg
}

func (w *world) post(b []byte) rig.Resp { return rig.Post(w.h.GinEngine, "/", b, nil) }

// unwrap follows a COMMAND_PIVOT task down the chain starting at hop `from` (whose task
// stream is `tasks`) and returns the tasks that reach member `target`.
func (w *world) unwrap(tasks []demon.Task, from, target int) (found []demon.Task, err string) {
	if from == target {
		return tasks, ""
	}
	for _, t := range tasks {
		if t.Cmd != demon.CmdPivot {
			continue
		}
		rd := demon.Rd{B: t.Body}
		sub := rd.I32()
		next := rd.I32()
		frame := rd.Bytes()
		if rd.Err || sub != demon.PivotSmbCmd {
			return nil, fmt.Sprintf("hop %d: pivot task body does not read as [12][next hop id][frame]: %x", from, clip(t.Body))
		}
		if next != w.sims[from+1].ID {
			// a frame for another pivot of this hop (not on the way to the target)
			continue
		}
		id, pkg, ok := demon.SmbFrame(frame)
		if !ok {
			return nil, fmt.Sprintf("hop %d: frame for %08x is not [id][size][package] with an exact size", from, next)
		}
		if id != w.sims[from+1].ID {
			return nil, fmt.Sprintf("hop %d: frame carries demon id %08x, the pipe's reader %08x would drop it (SmbRecv id check)", from, id, w.sims[from+1].ID)
		}
		inner, ok := demon.ParseTasks(pkg, w.sims[from+1].Key, w.sims[from+1].IV)
		if !ok {
			return nil, fmt.Sprintf("hop %d: package for %08x is not a task stream", from+1, next)
		}
		f, e := w.unwrap(inner, from+1, target)
		if e != "" {
			return nil, e
		}
		found = append(found, f...)
	}
	return found, ""
}

func runChain(c *lib.Ctx, cs chainCase) (sig, what string) {
	r, err := rig.New(rig.Options{})
	if err != nil {
		c.Inconclusive(err.Error())
		return
	}
	defer r.Close()
	hh, err := r.StartHTTP(handlers.HTTPConfig{Name: "c08"})
	if err != nil {
		c.Inconclusive(err.Error())
		return
	}
	rng := rand.New(rand.NewSource(cs.Seed))
	w := &world{r: r, h: hh, rec: rig.NewRecorder(r.TS), req: 0x80000}
	hh.Teamserver = w.rec
	atAdd := map[string]uint32{} // pivot agent -> request id of the task issued when it appeared
	var early []demon.Task       // tasks the root was handed while the chain was being built
	if cs.TaskOnAdd {
		w.rec.OnAgentAdd = func(a *agent.Agent) {
			for i := 1; i < len(w.sims); i++ {
				if w.sims[i].Hex() == a.NameID {
					w.req++
					atAdd[a.NameID] = w.req
					rig.TaskSimple(r.TS, a.NameID, w.req)
				}
			}
		}
	}
	depth := len(cs.IDs) - 1
	for i, id := range cs.IDs {
		s := rig.NewSim(rng, id)
		if cs.ZeroKey[i] {
			s.Key = make([]byte, 32)
		}
		w.sims = append(w.sims, s)
	}
	// build the chain through the protocol
	if resp := w.post(w.sims[0].RegisterBytes()); resp.Status != 200 {
		c.Inconclusive("root registration failed")
		return
	}
	for i := 1; i < len(w.sims); i++ {
		// the parent needs an outstanding `pivot connect` request id
		w.req++
		rig.TaskSimple(r.TS, w.sims[i-1].Hex(), w.req)
		resp := w.post(w.up(i-1, demon.SmbConnect(w.req, w.sims[i].RegisterBytes())))
		if resp.Panic != nil {
			return lib.PanicSig(resp.Panic, resp.Stack), fmt.Sprintf("building the chain (hop %d) panics: %v", i, resp.Panic)
		}
		// the root's reply may already carry tasks issued meanwhile (OnAgentAdd)
		if ts, ok := demon.ParseTasks(resp.Body, w.sims[0].Key, w.sims[0].IV); ok {
			early = append(early, ts...)
		}
		var found bool
		for _, a := range r.TS.Agents.Agents {
			if a.NameID == w.sims[i].Hex() && a.Pivots.Parent != nil && a.Pivots.Parent.NameID == w.sims[i-1].Hex() {
				found = true
			}
		}
		if !found {
			return "chain:child-not-linked:" + idClass(w.sims[i].ID), fmt.Sprintf("after the SMB connect callback of %s, agent %s is not registered as its child (depth %d)", w.sims[i-1].Hex(), w.sims[i].Hex(), i)
		}
	}
	// drain whatever the chain building queued; a task issued when a session appeared must be
	// on its way down the chain like any other
	w.rec.OnAgentAdd = nil
	if len(atAdd) > 0 {
		resp, tasks, ok := w.sims[0].Checkin(hh.GinEngine)
		if resp.Panic != nil {
			return lib.PanicSig(resp.Panic, resp.Stack), fmt.Sprintf("root check-in panics: %v", resp.Panic)
		}
		if !ok {
			return "down:response-not-a-task-stream", fmt.Sprintf("root check-in response after building the chain is not a task stream (status %d)", resp.Status)
		}
		tasks = append(early, tasks...)
		for i := 1; i < len(w.sims); i++ {
			id, issued := atAdd[w.sims[i].Hex()]
			if !issued {
				continue
			}
			got, e := w.unwrap(tasks, 0, i)
			found := false
			for _, t := range got {
				if t.ReqID == id {
					found = true
				}
			}
			if e != "" || !found {
				return fmt.Sprintf("down:task-issued-at-registration-missing:depth=%d", i), fmt.Sprintf("a task (request %#x) issued for pivot agent %s at the moment its session appeared does not reach it with any of the root's check-ins (chain %v) %s", id, w.sims[i].Hex(), hexIDs(w.sims), e)
			}
			c.Observe("down.ok.task-issued-at-registration", 1)
		}
	} else {
		w.post(w.up(0))
	}
	w.rec.Take()

	if cs.RefusedConnect && depth >= 2 {
		d := depth
		w.req++
		rig.TaskSimple(r.TS, w.sims[d].Hex(), w.req)
		w.post(w.up(0)) // hand the task out
		resp := w.post(w.up(d, demon.SmbConnect(w.req, w.sims[d-1].RegisterBytes())))
		if resp.Panic != nil {
			return lib.PanicSig(resp.Panic, resp.Stack), fmt.Sprintf("a connect that names the sender's parent panics: %v", resp.Panic)
		}
		w.post(w.up(0))
		w.rec.Take()
		for i := 1; i < len(w.sims); i++ {
			ok := false
			for _, a := range r.TS.Agents.Agents {
				if a.NameID == w.sims[i].Hex() && a.Pivots.Parent != nil && a.Pivots.Parent.NameID == w.sims[i-1].Hex() {
					ok = true
				}
			}
			if !ok {
				return fmt.Sprintf("chain:broken-by-refused-connect:depth=%d", i), fmt.Sprintf("agent %s (depth %d) reported an SMB connect naming its own parent %s; afterwards agent %s (depth %d) is no longer the child of %s (chain %v)", w.sims[d].Hex(), d, w.sims[d-1].Hex(), w.sims[i].Hex(), i, w.sims[i-1].Hex(), hexIDs(w.sims))
			}
		}
		c.Observe("refused-connects-naming-the-parent", 1)
	}

	// ---- downward ----
	for ti, t := range cs.Tasks {
		tgt := t.Target % len(w.sims)
		cmd, body, extra := expectedBody(t)
		w.req++
		rig.Task(r.TS, w.sims[tgt].Hex(), cmd, w.req, extra)
		resp, tasks, ok := w.sims[0].Checkin(hh.GinEngine)
		if resp.Panic != nil {
			return lib.PanicSig(resp.Panic, resp.Stack), fmt.Sprintf("root check-in panics: %v", resp.Panic)
		}
		if !ok {
			return "down:response-not-a-task-stream", fmt.Sprintf("task %d: root check-in response is not a task stream (status %d)", ti, resp.Status)
		}
		got, e := w.unwrap(tasks, 0, tgt)
		if e != "" {
			return "down:unwrap:" + strings.SplitN(e, ":", 2)[0][:3] + ":depth=" + fmt.Sprint(tgt), fmt.Sprintf("task %d for %s (depth %d): %s", ti, w.sims[tgt].Hex(), tgt, e)
		}
		var mine *demon.Task
		for k := range got {
			if got[k].ReqID == w.req {
				mine = &got[k]
			}
		}
		if mine == nil {
			return fmt.Sprintf("down:task-missing:depth=%d:%s", tgt, chainIDClass(w.sims, tgt)), fmt.Sprintf("task %d (request %#x, command %d) for %s at depth %d of chain %v does not reach it; it got %d tasks", ti, w.req, cmd, w.sims[tgt].Hex(), tgt, hexIDs(w.sims), len(got))
		}
		if mine.Cmd != cmd || !bytes.Equal(mine.Body, body) {
			return fmt.Sprintf("down:task-differs:depth=%d", tgt), fmt.Sprintf("task %d for %s: expected cmd %d body %x under the target's key, got cmd %d body %x", ti, w.sims[tgt].Hex(), cmd, body, mine.Cmd, clip(mine.Body))
		}
		c.Observe(fmt.Sprintf("down.ok.depth%d", tgt), 1)

		// ---- upward: the target answers through the chain ----
		marker := fmt.Sprintf("MK%08x", rng.Uint32())
		var p demon.Pkg
		p.I32(9).WStr(marker) // fs pwd: "Current directory: <marker>"
		cb := demon.Callback{Cmd: 15, ReqID: w.req, Body: p.B}
		w.rec.Take()
		resp = w.post(w.up(tgt, cb))
		if resp.Panic != nil {
			return lib.PanicSig(resp.Panic, resp.Stack), fmt.Sprintf("relayed callback panics: %v", resp.Panic)
		}
		eff := w.rec.Take()
		who := ""
		for _, e := range eff {
			if e.Call == "AgentConsole" && strings.Contains(fmt.Sprint(e.Output), marker) {
				who = e.Agent
			}
		}
		if who == "" {
			return fmt.Sprintf("up:callback-lost:depth=%d:%s", tgt, chainIDClass(w.sims, tgt)), fmt.Sprintf("relayed callback of %s (depth %d) carrying %s with its outstanding id %#x produced no console output with the marker; effects: %s", w.sims[tgt].Hex(), tgt, marker, w.req, effStr(eff))
		}
		if who != w.sims[tgt].Hex() {
			return "up:attributed-to-wrong-agent", fmt.Sprintf("relayed callback of %s was attributed to %s", w.sims[tgt].Hex(), who)
		}
		c.Observe(fmt.Sprintf("up.ok.depth%d", tgt), 1)
		// the same callback again: the id is completed now, must be dropped
		w.rec.Take()
		w.post(w.up(tgt, cb))
		for _, e := range w.rec.Take() {
			if e.Call == "AgentConsole" && strings.Contains(fmt.Sprint(e.Output), marker) {
				return "up:completed-id-accepted", fmt.Sprintf("relayed callback of %s with the completed id %#x was accepted again", w.sims[tgt].Hex(), w.req)
			}
		}
		// gate by the child's outstanding ids, not the parent's: give the PARENT an
		// outstanding id and let the child use it
		if tgt > 0 {
			w.req++
			rig.TaskSimple(r.TS, w.sims[tgt-1].Hex(), w.req)
			w.post(w.up(0))
			m2 := fmt.Sprintf("MK%08x", rng.Uint32())
			var p2 demon.Pkg
			p2.I32(9).WStr(m2)
			w.rec.Take()
			w.post(w.up(tgt, demon.Callback{Cmd: 15, ReqID: w.req, Body: p2.B}))
			for _, e := range w.rec.Take() {
				if e.Call == "AgentConsole" && strings.Contains(fmt.Sprint(e.Output), m2) {
					return "up:gated-by-parent-ids", fmt.Sprintf("relayed callback of %s using request id %#x that is outstanding only for its parent %s was accepted (attributed to %s)", w.sims[tgt].Hex(), w.req, w.sims[tgt-1].Hex(), e.Agent)
				}
			}
			// the parent can still use its own id
			var p3 demon.Pkg
			p3.I32(9).WStr(m2 + "P")
			w.rec.Take()
			w.post(w.up(tgt-1, demon.Callback{Cmd: 15, ReqID: w.req, Body: p3.B}))
			ok := false
			for _, e := range w.rec.Take() {
				if e.Call == "AgentConsole" && e.Agent == w.sims[tgt-1].Hex() && strings.Contains(fmt.Sprint(e.Output), m2+"P") {
					ok = true
				}
			}
			if !ok {
				return "up:parent-id-consumed-by-child", fmt.Sprintf("after the child's attempt, parent %s could not use its own outstanding id %#x", w.sims[tgt-1].Hex(), w.req)
			}
		}
	}
	_ = depth
	return "", ""
}

func chainIDClass(sims []*rig.Sim, upto int) string {
	for i := 0; i <= upto && i < len(sims); i++ {
		if sims[i].ID >= 0x80000000 {
			return "chain-has-id>=2^31"
		}
	}
	return "chain-ids<2^31"
}

func hexIDs(sims []*rig.Sim) []string {
	var s []string
	for _, x := range sims {
		s = append(s, x.Hex())
	}
	return s
}

func effStr(e []rig.Effect) string {
	b, _ := json.Marshal(e)
	if len(b) > 400 {
		return string(b[:400]) + "…"
	}
	return string(b)
}

func clip(b []byte) []byte {
	if len(b) > 48 {
		return b[:48]
	}
	return b
}

func gen(rng *rand.Rand) chainCase {
	depth := 1 + rng.Intn(5)
	cs := chainCase{Seed: rng.Int63(), TaskOnAdd: rng.Intn(2) == 0, RefusedConnect: rng.Intn(3) == 0}
	perm := rng.Perm(len(idChoices))
	for i := 0; i <= depth; i++ {
		id := idChoices[perm[i]]
		if rng.Intn(3) == 0 {
			id = rng.Uint32() | 1
		}
		cs.IDs = append(cs.IDs, id)
		cs.ZeroKey = append(cs.ZeroKey, rng.Intn(8) == 0)
	}
	kinds := []string{"sleep", "cd", "checkin", "kill"}
	n := 2 + rng.Intn(4)
	for k := 0; k < n; k++ {
		t := taskOp{Target: rng.Intn(depth + 1), Kind: kinds[rng.Intn(len(kinds))], A: rng.Uint32() >> uint(rng.Intn(32)), B: uint32(rng.Intn(100))}
		if k == 0 {
			t.Target = depth // the deepest agent always gets one
		}
		t.S = []string{"C:\\Windows", "D:\\ünï\\日本", "x", "\\\\srv\\share\\dir"}[rng.Intn(4)]
		if t.Kind == "sleep" {
			t.A &= 0x7fffffff
		}
		cs.Tasks = append(cs.Tasks, t)
	}
	return cs
}

func run(c *lib.Ctx) {
	c.Rule("pivot chains of depth 1..5 built through the protocol, ids from {1, 2, 2^31-1, 2^31, 2^31+1, 2^32-2, 2^32-1, random}, distinct random keys (some all-zero); per chain 2..5 tasks (sleep / fs cd / checkin / proc kill) for members at every depth, each followed by the target's relayed answer, a replay of it, and an attempt to use the parent's outstanding id; distinct = distinct (ids, keys seed, tasks); non-trivial = depth >= 1 and at least one task unwrapped")
	c.Assume("the reference unwrapping follows Command.c (DEMON_PIVOT_SMB_COMMAND: next-hop id + opaque frame) and TransportSmb.c SmbRecv ([demon id][size][package], id must equal the reader's)", "expected task bodies come from what the Demon's handler reads, not from TaskPrepare")
	one := func(cs chainCase) {
		b, _ := json.Marshal(cs)
		c.Cur("chain", b)
		c.Eval()
		c.DistinctBytes(b)
		c.Observe(fmt.Sprintf("chains.depth%d", len(cs.IDs)-1), 1)
		c.SampleSome(100, func() any { return cs })
		if sig, what := runChain(c, cs); sig != "" {
			c.Violation(sig, what, cs)
		}
	}
	if c.Replay != nil {
		var cs chainCase
		if json.Unmarshal(c.Replay, &cs) == nil {
			one(cs)
		}
		return
	}
	n := c.N(500, 200000)
	for i := 0; i < n; i++ {
		one(gen(c.Rng))
	}
}
