// Package c09: "The pivot graph is always a consistent forest, mirrored in the database".
//
// Histories of pivot connect / reconnect / disconnect / exit / kill-date / mark-dead events
// over a small universe of agents are executed with real callbacks (through the listener,
// relayed through the current parent chain) and real operator packages; after every step
// the forest invariants are evaluated on the live objects and on a fresh read of TS_Links.
package c09

import (
	"encoding/json"
	"fmt"
	"math/rand"
	"sort"
	"strconv"
	"strings"

	"Havoc/pkg/agent"
	"Havoc/pkg/handlers"
	"Havoc/pkg/packager"

	"verifh/demon"
	"verifh/lib"
	"verifh/observe"
	"verifh/rig"
)

func init() { lib.Register("C09", run) }

type ev struct {
	Op string `json:"op"` // reg | connect | disconnect | disconnect-fail | exit | killdate | dead | alive
	A  int    `json:"a"`  // acting agent (parent for connect/disconnect)
	B  int    `json:"b"`  // other agent (child)
}

func (e ev) String() string {
	switch e.Op {
	case "connect", "disconnect", "disconnect-fail":
		return fmt.Sprintf("%s(%d,%d)", e.Op, e.A, e.B)
	}
	return fmt.Sprintf("%s(%d)", e.Op, e.A)
}

type history struct {
	IDs    []uint32 `json:"ids"`
	Events []ev     `json:"events"`
	Seed   int64    `json:"seed"`
}

var idPool = [][]uint32{
	{0x0a000001, 0x0b000002, 0x0c000003, 0x0d000004},
	{0x7fffffff, 0x80000000, 0xffffffff, 0x00000001},
}

type world struct {
	r    *rig.Rig
	h    *handlers.HTTP
	sims []*rig.Sim
	reg  []bool
	req  uint32
}

func (w *world) inst(i int) *agent.Agent {
	for _, a := range w.r.TS.Agents.Agents {
		if a.NameID == w.sims[i].Hex() {
			return a
		}
	}
	return nil
}

func (w *world) idxOf(a *agent.Agent) int {
	for i, s := range w.sims {
		if s.Hex() == a.NameID {
			return i
		}
	}
	return -1
}

// route wraps a check-in of agent i through its live parent chain (as read from the
// teamserver's own objects: that is how the traffic would really travel). ok=false if the
// chain is broken (cycle or unknown agent).
func (w *world) route(i int, cbs ...demon.Callback) ([]byte, bool) {
	s := w.sims[i]
	pkg := demon.Checkin(s.ID, s.Key, s.IV, cbs...)
	a := w.inst(i)
	if a == nil {
		return nil, false
	}
	for hops := 0; a.Pivots.Parent != nil; hops++ {
		if hops > 8 {
			return nil, false
		}
		p := a.Pivots.Parent
		pi := w.idxOf(p)
		if pi < 0 {
			return nil, false
		}
		ps := w.sims[pi]
		pkg = demon.Checkin(ps.ID, ps.Key, ps.IV, demon.PivotWrap(pkg))
		a = p
	}
	return pkg, true
}

// outstanding makes request id req outstanding for agent i (operator task + hand-out).
func (w *world) outstanding(i int) (uint32, bool) {
	if w.cyclic() {
		return 0, false
	}
	w.req++
	rig.TaskSimple(w.r.TS, w.sims[i].Hex(), w.req)
	// hand-out: the root of the chain checks in
	pkg, ok := w.route(i)
	if !ok {
		return 0, false
	}
	rig.Post(w.h.GinEngine, "/", pkg, nil)
	return w.req, true
}

func (w *world) cyclic() bool {
	for _, a := range w.r.TS.Agents.Agents {
		n := 0
		for p := a.Pivots.Parent; p != nil; p = p.Pivots.Parent {
			if n++; n > 16 {
				return true
			}
		}
	}
	return false
}

// apply executes one event; executed=false when the event is not applicable in the
// current state (e.g. the acting agent is not registered).
func (w *world) apply(e ev) (executed bool, sig, what string) {
	post := func(b []byte) (string, string) {
		resp := rig.Post(w.h.GinEngine, "/", b, nil)
		if resp.Panic != nil {
			return lib.PanicSig(resp.Panic, resp.Stack), fmt.Sprintf("%s panics: %v", e, resp.Panic)
		}
		return "", ""
	}
	switch e.Op {
	case "reg":
		if w.reg[e.A] {
			return false, "", ""
		}
		s, m := post(w.sims[e.A].RegisterBytes())
		w.reg[e.A] = w.inst(e.A) != nil
		return true, s, m
	case "connect":
		if !w.reg[e.A] {
			return false, "", ""
		}
		req, ok := w.outstanding(e.A)
		if !ok {
			return false, "", ""
		}
		pkg, ok := w.route(e.A, demon.SmbConnect(req, w.sims[e.B].RegisterBytes()))
		if !ok {
			return false, "", ""
		}
		s, m := post(pkg)
		if w.inst(e.B) != nil {
			w.reg[e.B] = true
		}
		return true, s, m
	case "disconnect", "disconnect-fail":
		if !w.reg[e.A] {
			return false, "", ""
		}
		req, ok := w.outstanding(e.A)
		if !ok {
			return false, "", ""
		}
		var p demon.Pkg
		succ := uint32(1)
		if e.Op == "disconnect-fail" {
			succ = 0
		}
		p.I32(11).I32(succ).I32(w.sims[e.B].ID)
		pkg, ok := w.route(e.A, demon.Callback{Cmd: demon.CmdPivot, ReqID: req, Body: p.B})
		if !ok {
			return false, "", ""
		}
		s, m := post(pkg)
		return true, s, m
	case "exit", "killdate":
		if !w.reg[e.A] {
			return false, "", ""
		}
		req, ok := w.outstanding(e.A)
		if !ok {
			return false, "", ""
		}
		cb := demon.Callback{Cmd: 93, ReqID: req}
		if e.Op == "exit" {
			var p demon.Pkg
			p.I32(1)
			cb = demon.Callback{Cmd: 92, ReqID: req, Body: p.B}
		}
		pkg, ok := w.route(e.A, cb)
		if !ok {
			return false, "", ""
		}
		s, m := post(pkg)
		return true, s, m
	case "dead", "alive":
		if !w.reg[e.A] {
			return false, "", ""
		}
		mark := "Dead"
		if e.Op == "alive" {
			mark = "Alive"
		}
		pv, stack := lib.Guard(func() {
			w.r.TS.DispatchEvent(packager.Package{Head: packager.Head{Event: packager.Type.Session.Type, User: "alice"},
				Body: packager.Body{SubEvent: packager.Type.Session.MarkAsDead, Info: map[string]any{"AgentID": w.sims[e.A].Hex(), "Marked": mark}}})
		})
		if pv != nil {
			return true, lib.PanicSig(pv, stack), fmt.Sprintf("%s panics: %v", e, pv)
		}
		return true, "", ""
	}
	return false, "", ""
}

// invariants evaluates the forest properties on the live objects and the database.
func (w *world) invariants(after ev) (string, string) {
	ags := w.r.TS.Agents.Agents
	parents := map[string][]string{} // child -> parents that list it
	for _, p := range ags {
		seen := map[string]int{}
		for _, l := range p.Pivots.Links {
			if l == nil {
				return "forest:nil-link:after-" + after.Op, fmt.Sprintf("after %s: %s lists a nil link", after, p.NameID)
			}
			seen[l.NameID]++
			if seen[l.NameID] == 2 {
				return "forest:duplicate-link-entry:after-" + after.Op, fmt.Sprintf("after %s: %s lists %s twice", after, p.NameID, l.NameID)
			}
			parents[l.NameID] = append(parents[l.NameID], p.NameID)
		}
	}
	for c, ps := range parents {
		if len(ps) > 1 {
			return "forest:two-parents:after-" + after.Op, fmt.Sprintf("after %s: %s is listed among the links of %v", after, c, ps)
		}
	}
	for _, a := range ags {
		// x in p.Links <=> x.Parent == p
		if a.Pivots.Parent != nil {
			found := false
			for _, l := range a.Pivots.Parent.Pivots.Links {
				if l == a {
					found = true
				}
			}
			if !found {
				return "forest:parent-without-link:after-" + after.Op, fmt.Sprintf("after %s: %s has parent %s but is not among that parent's links", after, a.NameID, a.Pivots.Parent.NameID)
			}
		}
		for _, l := range a.Pivots.Links {
			if l.Pivots.Parent != a {
				pn := "<none>"
				if l.Pivots.Parent != nil {
					pn = l.Pivots.Parent.NameID
				}
				return "forest:link-without-parent:after-" + after.Op, fmt.Sprintf("after %s: %s lists %s whose parent is %s", after, a.NameID, l.NameID, pn)
			}
		}
		n := 0
		for p := a.Pivots.Parent; p != nil; p = p.Pivots.Parent {
			if n++; n > len(ags) {
				return "forest:cycle:after-" + after.Op, fmt.Sprintf("after %s: %s is its own ancestor", after, a.NameID)
			}
		}
	}
	// database mirror
	var live []string
	for _, p := range ags {
		pid, _ := strconv.ParseUint(p.NameID, 16, 32)
		for _, l := range p.Pivots.Links {
			cid, _ := strconv.ParseUint(l.NameID, 16, 32)
			live = append(live, fmt.Sprintf("%d>%d", pid, cid))
		}
	}
	sort.Strings(live)
	rows, err := observe.DBRows(w.r.Dir+"/data/teamserver.db", "TS_Links")
	if err != nil {
		return "", ""
	}
	var db []string
	for _, r := range rows {
		// ParentAgentID=int64:1|LinkAgentID=int64:2|
		var p, c int64
		for _, f := range strings.Split(r, "|") {
			if v, ok := strings.CutPrefix(f, "ParentAgentID=int64:"); ok {
				p, _ = strconv.ParseInt(v, 10, 64)
			}
			if v, ok := strings.CutPrefix(f, "LinkAgentID=int64:"); ok {
				c, _ = strconv.ParseInt(v, 10, 64)
			}
		}
		db = append(db, fmt.Sprintf("%d>%d", uint32(p), uint32(c)))
	}
	sort.Strings(db)
	if strings.Join(live, ",") != strings.Join(db, ",") {
		cls := "stale-row"
		if len(db) < len(live) {
			cls = "missing-row"
		}
		return "forest:db-mismatch:" + cls + ":after-" + after.Op, fmt.Sprintf("after %s: live links %v, TS_Links rows %v", after, live, db)
	}
	return "", ""
}

func runHistory(c *lib.Ctx, h history) (sig, what string, executed int) {
	r, err := rig.New(rig.Options{})
	if err != nil {
		c.Inconclusive(err.Error())
		return
	}
	defer r.Close()
	hh, err := r.StartHTTP(handlers.HTTPConfig{Name: "c09"})
	if err != nil {
		c.Inconclusive(err.Error())
		return
	}
	rng := rand.New(rand.NewSource(h.Seed))
	w := &world{r: r, h: hh, req: 0x9000, reg: make([]bool, len(h.IDs))}
	for _, id := range h.IDs {
		w.sims = append(w.sims, rig.NewSim(rng, id))
	}
	for _, e := range h.Events {
		ok, s, m := w.apply(e)
		if s != "" {
			return s, m, executed
		}
		if !ok {
			continue
		}
		executed++
		if s, m := w.invariants(e); s != "" {
			return s, m, executed
		}
		// "removing an agent with any number of links completes and detaches all of them"
		if e.Op == "exit" || e.Op == "killdate" || e.Op == "dead" {
			if a := w.inst(e.A); a != nil {
				if len(a.Pivots.Links) != 0 {
					return "forest:dead-agent-keeps-links:after-" + e.Op, fmt.Sprintf("after %s: %s still lists %d links", e, a.NameID, len(a.Pivots.Links)), executed
				}
				for _, p := range r.TS.Agents.Agents {
					for _, l := range p.Pivots.Links {
						if l == a {
							return "forest:dead-agent-still-linked:after-" + e.Op, fmt.Sprintf("after %s: %s is still among the links of %s", e, a.NameID, p.NameID), executed
						}
					}
				}
			}
		}
	}
	return "", "", executed
}

func alphabet(n int) []ev {
	var al []ev
	for a := 0; a < n; a++ {
		al = append(al, ev{Op: "reg", A: a}, ev{Op: "exit", A: a}, ev{Op: "killdate", A: a}, ev{Op: "dead", A: a}, ev{Op: "alive", A: a})
		for b := 0; b < n; b++ {
			al = append(al, ev{Op: "connect", A: a, B: b}, ev{Op: "disconnect", A: a, B: b}, ev{Op: "disconnect-fail", A: a, B: b})
		}
	}
	return al
}

func run(c *lib.Ctx) {
	c.Rule("event sequences over {reg, connect(p,c) incl. self/ancestor/existing, disconnect ok/fail incl. non-children, exit, kill-date, operator mark dead/alive} on 3 agents: exhaustive suffixes of length <= 2 (quick) / <= 3 (thorough) after the prefixes [reg 0], [reg 0, connect(0,1), connect(0,2)] (star), [reg 0, connect(0,1), connect(1,2)] (chain) and, on 4 agents, [reg 0, connect(0,1), connect(0,2), connect(0,3)] (three links; suffix length 1, 2 thorough), plus random sequences of length <= 12 on 4 agents incl. ids >= 2^31; " +
		"distinct = distinct (ids, executed event sequence); non-trivial = at least two executed events")
	c.Assume("events travel as real callbacks through the listener engine, relayed through the parent chain the teamserver itself records", "invariants are read from the live objects at quiescence (single goroutine) and from TS_Links through a separate read-only connection")
	one := func(h history) {
		b, _ := json.Marshal(h)
		c.Cur("history", b)
		c.Eval()
		sig, what, n := runHistory(c, h)
		if n >= 2 {
			c.DistinctBytes(b)
		}
		c.Observe("events.executed", int64(n))
		c.SampleSome(300, func() any { return h })
		if sig != "" {
			c.Violation(sig, what, h)
		}
	}
	if c.Replay != nil {
		var h history
		if json.Unmarshal(c.Replay, &h) == nil {
			one(h)
		}
		return
	}
	al := alphabet(3)
	prefixes := [][]ev{
		{{Op: "reg", A: 0}},
		{{Op: "reg", A: 0}, {Op: "connect", A: 0, B: 1}, {Op: "connect", A: 0, B: 2}},
		{{Op: "reg", A: 0}, {Op: "connect", A: 0, B: 1}, {Op: "connect", A: 1, B: 2}},
	}
	depth := 2
	if c.Thorough() {
		depth = 3
	}
	// a parent with three links (four agents): suffixes of length 1 (2 thorough) over the 4-agent alphabet
	wide := []ev{{Op: "reg", A: 0}, {Op: "connect", A: 0, B: 1}, {Op: "connect", A: 0, B: 2}, {Op: "connect", A: 0, B: 3}}
	widx := 0
	var recW func(pre []ev, d int)
	recW = func(pre []ev, d int) {
		if d == 0 {
			widx++
			if c.Mine(widx) {
				one(history{IDs: idPool[widx%2], Events: pre, Seed: int64(widx)})
			}
			return
		}
		for _, e := range alphabet(4) {
			recW(append(append([]ev{}, pre...), e), d-1)
		}
	}
	recW(wide, 1)
	if c.Thorough() {
		recW(wide, 2)
	}
	c.Observe("exhaustive.wide-sequences", int64(widx))
	idx := 0
	var rec func(pre []ev, d int)
	rec = func(pre []ev, d int) {
		if d == 0 {
			idx++
			if c.Mine(idx) {
				one(history{IDs: idPool[idx%2][:3], Events: pre, Seed: int64(idx)})
			}
			return
		}
		for _, e := range al {
			rec(append(append([]ev{}, pre...), e), d-1)
		}
	}
	for _, p := range prefixes {
		for d := 1; d <= depth; d++ {
			rec(p, d)
		}
	}
	c.Exhaustive(true)
	c.Observe("exhaustive.sequences", int64(idx))
	// random part on 4 agents
	al4 := alphabet(4)
	n := c.N(600, 200000)
	for i := 0; i < n; i++ {
		h := history{IDs: idPool[c.Rng.Intn(2)], Seed: c.Rng.Int63()}
		h.Events = append(h.Events, ev{Op: "reg", A: 0})
		for k := 0; k < 3+c.Rng.Intn(10); k++ {
			h.Events = append(h.Events, al4[c.Rng.Intn(len(al4))])
		}
		one(h)
	}
}
