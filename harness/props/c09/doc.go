// Package c09 holds the workload and monitor for property C09 (see /verif/DESIGN.md §3).
package c09
