module verifh

go 1.21.0

require (
	Havoc v0.0.0
	github.com/anishathalye/porcupine v1.3.0
)

require (
	github.com/fatih/color v1.17.0 // indirect
	github.com/mattn/go-colorable v0.1.13 // indirect
	github.com/mattn/go-isatty v0.0.20 // indirect
	golang.org/x/image v0.20.0 // indirect
	golang.org/x/sys v0.25.0 // indirect
	golang.org/x/text v0.18.0 // indirect
)

replace Havoc => /repo/teamserver
