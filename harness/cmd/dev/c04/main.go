// Development worker containing only property C04 (VERIF_DEV=c04 ./check C04).
package main

import (
	"verifh/lib"
	_ "verifh/props/c04"
)

func main() { lib.Main() }
