// Development worker containing only property C19 (VERIF_DEV=c19 ./check C19).
package main

import (
	"verifh/lib"
	_ "verifh/props/c19"
)

func main() { lib.Main() }
