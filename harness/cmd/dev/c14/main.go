// Development worker containing only property C14 (VERIF_DEV=c14 ./check C14).
package main

import (
	"verifh/lib"
	_ "verifh/props/c14"
)

func main() { lib.Main() }
