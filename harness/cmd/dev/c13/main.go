// Development worker containing only property C13 (VERIF_DEV=c13 ./check C13).
package main

import (
	"verifh/lib"
	_ "verifh/props/c13"
)

func main() { lib.Main() }
