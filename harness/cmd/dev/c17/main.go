// Development worker containing only property C17 (VERIF_DEV=c17 ./check C17).
package main

import (
	"verifh/lib"
	_ "verifh/props/c17"
)

func main() { lib.Main() }
