// Development worker containing only the driver self-test.
package main

import (
	"verifh/lib"
	_ "verifh/props/selftest"
)

func main() { lib.Main() }
