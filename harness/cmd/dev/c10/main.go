// Development worker containing only property C10 (VERIF_DEV=c10 ./check C10).
package main

import (
	"verifh/lib"
	_ "verifh/props/c10"
)

func main() { lib.Main() }
