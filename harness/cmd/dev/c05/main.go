// Development worker containing only property C05 (VERIF_DEV=c05 ./check C05).
package main

import (
	"verifh/lib"
	_ "verifh/props/c05"
)

func main() { lib.Main() }
