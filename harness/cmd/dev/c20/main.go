// Development worker containing only property C20 (VERIF_DEV=c20 ./check C20).
package main

import (
	"verifh/lib"
	_ "verifh/props/c20"
)

func main() { lib.Main() }
