// Development worker containing only property C01 (VERIF_DEV=c01 ./check C01).
package main

import (
	"verifh/lib"
	_ "verifh/props/c01"
)

func main() { lib.Main() }
