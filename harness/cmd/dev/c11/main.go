// Development worker containing only property C11 (VERIF_DEV=c11 ./check C11).
package main

import (
	"verifh/lib"
	_ "verifh/props/c11"
)

func main() { lib.Main() }
