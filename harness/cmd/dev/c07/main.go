// Development worker containing only property C07 (VERIF_DEV=c07 ./check C07).
package main

import (
	"verifh/lib"
	_ "verifh/props/c07"
)

func main() { lib.Main() }
