// Development worker containing only property C12 (VERIF_DEV=c12 ./check C12).
package main

import (
	"verifh/lib"
	_ "verifh/props/c12"
)

func main() { lib.Main() }
