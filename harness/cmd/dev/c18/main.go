// Development worker containing only property C18 (VERIF_DEV=c18 ./check C18).
package main

import (
	"verifh/lib"
	_ "verifh/props/c18"
)

func main() { lib.Main() }
