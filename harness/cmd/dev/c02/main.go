// Development worker containing only property C02 (VERIF_DEV=c02 ./check C02).
package main

import (
	"verifh/lib"
	_ "verifh/props/c02"
)

func main() { lib.Main() }
