// Development worker containing only property C03 (VERIF_DEV=c03 ./check C03).
package main

import (
	"verifh/lib"
	_ "verifh/props/c03"
)

func main() { lib.Main() }
