// Development worker containing only property C08 (VERIF_DEV=c08 ./check C08).
package main

import (
	"verifh/lib"
	_ "verifh/props/c08"
)

func main() { lib.Main() }
