// Development worker containing only property C09 (VERIF_DEV=c09 ./check C09).
package main

import (
	"verifh/lib"
	_ "verifh/props/c09"
)

func main() { lib.Main() }
