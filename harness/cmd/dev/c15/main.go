// Development worker containing only property C15 (VERIF_DEV=c15 ./check C15).
package main

import (
	"verifh/lib"
	_ "verifh/props/c15"
)

func main() { lib.Main() }
