// Development worker containing only property C16 (VERIF_DEV=c16 ./check C16).
package main

import (
	"verifh/lib"
	_ "verifh/props/c16"
)

func main() { lib.Main() }
