// Development worker containing only property C06 (VERIF_DEV=c06 ./check C06).
package main

import (
	"verifh/lib"
	_ "verifh/props/c06"
)

func main() { lib.Main() }
