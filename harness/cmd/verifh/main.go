// verifh is the worker binary: one invocation = one shard of one property's workload.
package main

import "verifh/lib"

func main() { lib.Main() }
