package main

// one blank import per property package; each registers itself in init()
import (
	_ "verifh/props/c01"
	_ "verifh/props/c02"
	_ "verifh/props/c03"
	_ "verifh/props/c04"
	_ "verifh/props/c05"
	_ "verifh/props/c06"
	_ "verifh/props/c07"
	_ "verifh/props/c08"
	_ "verifh/props/c09"
	_ "verifh/props/c10"
	_ "verifh/props/c11"
	_ "verifh/props/c12"
	_ "verifh/props/c13"
	_ "verifh/props/c14"
	_ "verifh/props/c15"
	_ "verifh/props/c16"
	_ "verifh/props/c17"
	_ "verifh/props/c18"
	_ "verifh/props/c19"
	_ "verifh/props/c20"
	_ "verifh/props/selftest"
)
