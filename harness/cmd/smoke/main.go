// smoke: sanity run of rig + reference Demon (register, task, check-in, decode).
package main

import (
	"bytes"
	"fmt"
	"os"

	"Havoc/pkg/handlers"
	"Havoc/pkg/packager"

	"verifh/demon"
	"verifh/observe"
	"verifh/rig"
)

func main() {
	full := len(os.Args) > 1 && os.Args[1] == "full"
	if len(os.Args) > 1 && os.Args[1] == "ws" {
		smokeFull()
		return
	}
	r, err := rig.New(rig.Options{Full: full})
	if err != nil {
		panic(err)
	}
	defer r.Close()
	h, err := r.StartHTTP(handlers.HTTPConfig{Name: "l1"})
	if err != nil {
		panic(err)
	}
	key := bytes.Repeat([]byte{0x41}, 32)
	iv := bytes.Repeat([]byte{0x42}, 16)
	m := &demon.Meta{AgentID: 0x1234abcd, Hostname: "HOST", Username: "user", Domain: "DOM", InternalIP: "10.0.0.1", ProcessPath: "C:\\x\\proc.exe", PID: 10, TID: 11, PPID: 12, Arch: 2, Elevated: 1, BaseAddr: 0x7ff000, OS: [5]uint32{10, 0, 1, 0, 19045}, OSArch: 9, Sleep: 5, Jitter: 10}
	resp := rig.Post(h.GinEngine, "/", demon.Register(m.AgentID, key, iv, m), nil)
	fmt.Println("register:", resp.Status, len(resp.Body), resp.Panic)
	fmt.Printf("reply dec: %x\n", demon.CTR(key, iv, resp.Body))
	fmt.Println("agents:", len(r.TS.Agents.Agents))
	r.TS.DispatchEvent(packager.Package{Head: packager.Head{Event: packager.Type.Session.Type, User: "alice"}, Body: packager.Body{SubEvent: packager.Type.Session.Input, Info: map[string]any{
		"DemonID": "1234abcd", "CommandID": "11", "TaskID": "0000AAAA", "CommandLine": "sleep 7 3", "Arguments": "7;3"}}})
	resp = rig.Post(h.GinEngine, "/", demon.Checkin(m.AgentID, key, iv), nil)
	fmt.Println("checkin:", resp.Status, len(resp.Body), resp.Panic)
	ts, ok := demon.ParseTasks(resp.Body, key, iv)
	fmt.Println("tasks:", ok, len(ts))
	for _, t := range ts {
		fmt.Printf("  cmd=%d req=%x body=%x\n", t.Cmd, t.ReqID, t.Body)
	}
	var p demon.Pkg
	p.I32(9).I32(4)
	resp = rig.Post(h.GinEngine, "/", demon.Checkin(m.AgentID, key, iv, demon.Callback{Cmd: 11, ReqID: 0xAAAA, Body: p.B}), nil)
	fmt.Println("callback:", resp.Status, resp.Panic)
	s := observe.Snapshot(r.TS, r.Dir+"/data/teamserver.db", r.Dir+"/data/loot")
	fmt.Println(s.JSON())
}
