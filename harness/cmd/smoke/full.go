package main

import (
	"fmt"
	"time"

	"verifh/faultproxy"
	"verifh/opclient"
	"verifh/rig"
	"verifh/svcclient"
)

func smokeFull() {
	r, err := rig.New(rig.Options{Full: true, Service: true})
	if err != nil {
		panic(err)
	}
	defer r.Close()
	addr := fmt.Sprintf("127.0.0.1:%d", r.Port)
	a, err := opclient.Connect(addr, "alice", "pw-alice")
	fmt.Println("alice:", err)
	px, _ := faultproxy.New(addr)
	b, err := opclient.Dial(addr, nil)
	_ = px
	ok, err := b.Login("bob", "wrong", 5*time.Second)
	fmt.Println("bob wrong:", ok, err)
	a.Chat("hello-1")
	a.Quiesce(200*time.Millisecond, 3*time.Second)
	for _, f := range a.Frames() {
		fmt.Printf("  alice got ev=%d sub=%d %v\n", f.Head.Event, f.Body.SubEvent, len(f.Raw))
	}
	s, err := svcclient.Connect(addr, "service-endpoint", "service-pw", "s1")
	fmt.Println("svc:", err)
	if s != nil {
		s.RegisterAgent("Talon", "0x41414141")
		time.Sleep(300 * time.Millisecond)
		fmt.Println("svc agents:", len(r.TS.Service.Agents))
	}
}
